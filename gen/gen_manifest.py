#!/usr/bin/env python3
"""Writes /verif/MANIFEST.json from the table below + the harness registry."""
import json, os, sys
ROOT = os.path.realpath(os.path.join(os.path.dirname(os.path.abspath(__file__)), '..'))
sys.path.insert(0, os.path.join(ROOT, 'lib'))
import registry

TECH = 'bounded model checking of the compiled Rust (Kani 0.68 -> CBMC 6.11 -> CaDiCaL SAT): kani::any() inputs/pre-states, tagged assertions, unwinding assertions on; counterexamples replayed natively with cargo kani playback'
NOTE = ('Trusted: Kani/CBMC/CaDiCaL; fixed-capacity array models of hashbrown/indexmap/BTreeSet (capacity 6, overflow is a reported failure; '
        'differentially tested against the real crates by setup); exact UTF-8 DFA stub for core::str::from_utf8; hand-written specification tables / reference encoders. '
        'Holds only inside the bounds written into the evidence file per harness; pointer checks off (safe Rust), Rust panics/overflow/bounds checks on.')

STEP = ('one symbolic API step per harness from an assigned, script-reachable pre-state (ids, limits, timer values, reason codes, flags symbolic at full width), '
        'post-conditions written over the post-state and the summarised event list, shared monitor for close ordering / timer consistency; inductive over histories inside the stated pre-state families')
CLAIMS = {
    'C02': ('5.C02', 'per packet kind and shape: builder -> size()/Remaining Length/contiguous/vectored serialisation -> parse, all compared byte for byte and by equality, for all field values of the shape (ids at full width, every reason code, flags, symbolic string/payload bytes); primitives (VBI, strings) at full width; property section on both sides of the 127/128 boundary. Bounded by the listed shapes (<=1 property, 1-3 byte strings, 2-byte payloads).'),
    'C03': ('5.C03', 'same harnesses as C02 but the oracle is an independently written reference encoding per shape (bytes spelled out from the OASIS tables) and exhaustive u8 tables for property identifiers, every reason/return-code enum and QoS; accessors of parsed reference encodings compared with the abstract field values'),
    'C04': ('5.C04', 'every parser on all byte strings up to N (N=3..6) and on every prefix of structured symbolic bodies; on acceptance: consumed <= given, size() == serialisation length, re-parse equal, builder rules (non-zero id, QoS<=2); Rust panics / out-of-bounds are failures by construction'),
    'C05': ('5.C05', 'receive-step harnesses with boundary values (packet id 0, Topic Alias Maximum 0, keep-alive 65535, symbolic fixed-header byte dispatch), framing totality from C09, id-management totality; every panic/overflow/unwrap reachable inside the bounds is a failure. ' + STEP),
    'C06': ('5.C06', STEP + '. Steps: send QoS1/2 PUBLISH in every status x persistence x offline flag, PUBREL in every status, PUBACK/PUBREC/PUBCOMP match / wrong kind / wrong id, erase, CONNACK resume (session present or not), server CONNACK resume, send_stored under a size limit, close.'),
    'C07': ('5.C07', STEP + '. Steps: inbound QoS2 PUBLISH against a handled set (new / duplicate / id 0, DUP, auto response on/off), PUBREL, application PUBREC with every reason code, close (persistent or not), clean-start CONNECT on a reused object, export/restore of the handled set.'),
    'C08': ('5.C08', 'PacketIdManager inductive step over an arbitrary valid allocator state at full u16 width (acquire / register / release, universal probe) + totality of the public id calls for every value incl. 0 + release monitor on the step harnesses of C06/C12/C14 (released exactly once, exactly when an in-use id becomes free; refusal paths; close)'),
    'C09': ('5.C09', 'PacketBuilder::feed decided for all 1-4 byte Remaining Length encodings, over-long lengths split at every point, every partition into <=3 chunks (+ byte-at-a-time) of six concrete-shape streams with symbolic content against whole-frame feeding, and recv() one-packet-per-call / framing-error steps'),
    'C10': ('5.C10', STEP + '. notify_closed from any status with symbolic leftovers (limits, alias tables, pending ids, timers, half-received frame); first step of the next connection (client CONNECT clean start vs. a fresh object, two objects compared field by field; server CONNECT after a connection with another keep-alive).'),
    'C11': ('5.C11', 'public send() per (role, packet kind) with connection version, status, need_store and offline_publish symbolic (36 cells per harness, 93 harnesses = full matrix in the thorough tier; quick = const table + 5 harnesses) against the MQTT send rules; refused sends must leave state unchanged; compile-time Sendable table evaluated for 29 types x 3 roles'),
    'C12': ('5.C12', STEP + '. Counter arithmetic at full u16 width: send at/below the limit, PUBACK/PUBREC(ok, error)/PUBCOMP match and mismatch, erase, retransmission on resume (server CONNACK), application PUBREC, inbound PUBLISH at the announced maximum.'),
    'C13': ('5.C13', 'TopicAliasSend/Recv kernels against an independent receiver/LRU model (histories of 3 operations, max<=3) + ' + STEP + '. Steps: manual alias with topic (re-binding) compared with a receiver model, empty topic + alias, automatic replacement, automatic mapping, receive side bound/unbound/out of range, close.'),
    'C14': ('5.C14', 'size kernel for all Remaining Lengths + ' + STEP + '. Steps with the limit symbolic around the concrete packet size: PUBACK, QoS1 PUBLISH, auto-mapped PUBLISH, send_stored (PUBLISH and PUBREL), inbound frame.'),
    'C15': ('5.C15', STEP + '. Timer monitor on every step (cancel only if armed, flags == fold of events, nothing armed when disconnected, exact intervals by priority) for all keep-alive / override / Server Keep Alive / timeout values: PINGREQ send, DISCONNECT, the three expiries, PINGRESP, close, server CONNECT (after another keep-alive), PUBREL while disconnected.'),
    'C16': ('5.C16', STEP + '. restore_packets (v3.1.1 / v5.0: PUBLISH QoS1, QoS2, PUBREL; duplicate ids) then wait sets / in-use ids / order / re-acquire, handled-set export->restore equality, CONNACK resume from a restored store; the crash-point quantifier is discharged by state equality (exportable state = store + handled set).'),
    'C17': ('5.C17', 'can_receive for all u8 x version x role against the MQTT table + process_recv_packet with a symbolic fixed-header byte per role/version (rejected => only a protocol error and state untouched; accepted => the handler of that type ran) + undetermined-version first packet for all protocol levels. ' + STEP),
    'C18': ('5.C18', 'each private validate_*_properties function decided against the specification table for property kind symbolic over all identifiers x occurrence count 1-2 x symbolic values, and every fixed-width / variable-byte property constructor and parser for all values; finite table fully covered except count>2'),
    'C19': ('5.C19', 'close-ordering monitor (no send after a close request in one list) on every step harness; own steps: DISCONNECT v3.1.1/v5.0, the three timer expiries, protocol-error paths of v3.1.1 and v5.0, Receive-Maximum / Packet-too-large / Topic-Alias-invalid automatic DISCONNECTs, recv() framing error. ' + STEP),
    'C20': ('5.C20', 'inductive step of the allocator (arbitrary range, arbitrary valid pool of <=3 (thorough: 4) runs, one symbolic operation, universal probe) at full u16/u32 width + base case + u8 histories; base+step cover histories of any length whose pool stays within the run bound'),
}
NA = {
    'C01': 'two live endpoints exchanging bytes under symbolic interleaving/loss over many steps is out of reach of the engine on this code (one object, four public calls: 37 GB, no verdict); no single inductive step expresses end-to-end termination/exactly-once. One-sided ingredients are decided under C06/C07/C08/C09/C10/C12.',
}


def main():
    props = [json.loads(l)['id'] for l in open(os.path.join(ROOT, 'properties.jsonl'))]
    have = set()
    for h in registry.HARNESSES:
        have.update(h['props'].keys())
    checks = []
    na = []
    for p in props:
        if p in CLAIMS and p in have:
            ref, text = CLAIMS[p]
            checks.append({
                'property_id': p,
                'quick_cmd': 'bin/check %s --tier quick' % p,
                'thorough_cmd': 'bin/check %s --tier thorough' % p,
                'evidence_file': 'evidence/%s.json' % p,
                'replay_cmd_template': 'bin/check --replay {path}',
                'engine': 'kani-cbmc',
                'level_claimed': {'category': 'model_checking', 'text': text, 'design_ref': 'DESIGN.md ' + ref},
                'level_note': NOTE,
                'technique': TECH,
            })
        else:
            na.append({'property_id': p, 'reason': NA.get(p, 'check under construction in this session (harnesses not yet calibrated); see DESIGN.md section 5')})
    m = {
        'version': 1,
        'setup_cmd': 'bin/setup',
        'hooks': {
            'guard': 'cargo features verif-hooks / verif-models (both off by default) + cfg(kani)',
            'enable': 'cargo kani --features verif-hooks,verif-models with VERIF_HARNESS_DIR=/verif/harness (replay: --features verif-hooks only, real containers)',
            'baseline_off_cmd': 'cd /repo && cargo test --workspace --no-fail-fast --offline',
            'source_commits': ['23a5c46', '28a9b80', '9b9e0ae'],
            'add_only': True,
        },
        'engines': [{'name': 'kani-cbmc', 'path': 'bin/check', 'serves_properties': [c['property_id'] for c in checks],
                     'kind_free_text': 'Kani 0.68 proof harnesses included into /repo as cfg-guarded child modules, decided by CBMC 6.11 + CaDiCaL'}],
        'checks': checks,
        'not_applicable': na,
        'notes': 'fix commits in /repo: see known_findings.json ("fixed"). Exit 2 of bin/check = inconclusive (never a pass, never a violation).',
    }
    with open(os.path.join(ROOT, 'MANIFEST.json'), 'w') as f:
        json.dump(m, f, indent=1)
    print('claimed:', [c['property_id'] for c in checks])


if __name__ == '__main__':
    main()
