#!/usr/bin/env python3
"""Writes /verif/MANIFEST.json from the table below + the harness registry."""
import json, os, sys
ROOT = os.path.realpath(os.path.join(os.path.dirname(os.path.abspath(__file__)), '..'))
sys.path.insert(0, os.path.join(ROOT, 'lib'))
import registry

TECH = 'bounded model checking of the compiled Rust (Kani 0.68 -> CBMC 6.11 -> CaDiCaL SAT): kani::any() inputs/pre-states, tagged assertions, unwinding assertions on; counterexamples replayed natively with cargo kani playback'
NOTE = ('Trusted: Kani/CBMC/CaDiCaL; fixed-capacity array models of hashbrown/indexmap/BTreeSet (capacity 6, overflow is a reported failure; '
        'differentially tested against the real crates by setup); exact UTF-8 DFA stub for core::str::from_utf8; hand-written specification tables / reference encoders. '
        'Holds only inside the bounds written into the evidence file per harness; pointer checks off (safe Rust), Rust panics/overflow/bounds checks on.')

STEP = ('one symbolic API step per harness from an assigned, script-reachable pre-state (ids, limits, timer values, reason codes, flags symbolic at full width), '
        'post-conditions written over the post-state and the summarised event list, shared monitor for close ordering / timer consistency; inductive over histories inside the stated pre-state families')
CLAIMS = {
    'C02': ('5.C02 / 10.5', 'per packet kind and shape: builder -> size() / Remaining Length / contiguous / vectored serialisation -> parse, compared byte for byte and by equality for all field values of the shape (ids at full u16 and u32 width, every return/reason code, flags, symbolic string/payload bytes); variable byte integers for all u32, strings of 0-3 symbolic bytes. Decided for the v3.1.1 acknowledgements, CONNACK, PUBLISH (3 QoS shapes), PING/DISCONNECT and the v5.0 CONNACK/DISCONNECT/AUTH without properties; the other v5.0 round trips are written but outside the claim (not decidable within 28 GB here).'),
    'C03': ('5.C03 / 10.5', 'the C02 harnesses compare against an independently written reference encoding per shape (bytes spelled out from the OASIS tables); exhaustive u8 tables for property identifiers, every reason/return-code enum and QoS; every fixed-width property kind: identifier byte + big-endian value for all values'),
    'C04': ('5.C04 / 10.5', 'parsers on all byte strings up to N (v3.1.1 acknowledgements N=4, CONNACK 3, strings / binaries 6, variable byte integers 5) and on structured symbolic bodies (v3.1.1 PUBLISH with all 16 flag nibbles, every prefix of a CONNECT body, non-minimal Property Length); on acceptance: consumed <= given, size() == serialisation length, re-parse equal, non-zero identifier, QoS <= 2; Rust panics / out-of-bounds are failures by construction. v5.0 parsers beyond the listed shapes are outside the claim.'),
    'C05': ('5.C05 / 10.5', 'receive steps with boundary values (CONNECT keep-alive at full width incl. 65535 on v3.1.1 and v5.0 servers, QoS2 PUBLISH id 0 / duplicate), over-long Remaining Length at every cut position, recv() framing error, totality of the id calls for every value, every prefix of a CONNECT body; thorough: dispatch with a symbolic fixed-header byte (v3.1.1 client and server), Topic Alias Maximum 0. Every panic / overflow / unwrap reachable inside the bounds is a failure. ' + STEP),
    'C06': ('5.C06 / 10.5', STEP + '. Quick: QoS1 PUBLISH sent on a persistent session (stored with DUP, id held, unregistered id refused), PUBACK match / wrong kind / wrong id / id 0 against a stored packet. Thorough: every status x persistence x offline flag for PUBLISH and PUBREL, v5.0 PUBACK / PUBREC (every reason code) / PUBCOMP, close.'),
    'C07': ('5.C07 / 10.5', STEP + '. Quick: inbound QoS2 PUBLISH new vs. duplicate (DUP symbolic), application PUBREC with every reason code (only errors forget the id), export/restore of the handled set. Thorough: auto response on/off incl. id 0, PUBREL (both versions, 34 min), close, clean-start CONNECT on a reused object.'),
    'C08': ('5.C08 / 10.5', 'PacketIdManager inductive step over an arbitrary valid allocator state at full u16 width (acquire / register / release, universal probe) + totality of release/register/acquire for every value incl. 0 and double release + close (pending subscribe id, in-flight publish id, persistent or not) + PUBACK match/mismatch release accounting; thorough: SUBACK/UNSUBACK with an id the application already released, PUBCOMP, v5.0 PUBACK'),
    'C09': ('5.C09 / 10.5', 'PacketBuilder::feed decided for all 1-4 byte Remaining Length encodings (header phase), over-long lengths at every cut position (3 concrete length patterns), every partition into <=3 chunks (+ byte-at-a-time) of concrete-shape streams with symbolic content against whole-frame feeding, and recv() handling exactly one packet per call'),
    'C10': ('5.C10 / 10.5', STEP + '. Quick: notify_closed from any status with symbolic leftovers (limits, alias tables, pending ids, timers, half-received frame); server CONNECT (v3.1.1 and v5.0) after a connection with another keep-alive. Thorough: clean-start CONNECT on a reused client compared field by field with a fresh object (two objects).'),
    'C11': ('5.C11 / 10.5', 'compile-time Sendable table for 29 types x 3 roles against the run-time role rule; public send() per (role, packet kind) with connection version (3), status (3), need_store and offline_publish symbolic = 36 cells per harness against the MQTT send rules, refused sends must leave the state (incl. inbound exchanges) unchanged. Quick = const table + 2 harnesses; thorough = 20 of the 93 generated harnesses (those decided on the final tree, DESIGN 10.5); the other 73 (among them every PUBLISH cell) are outside the claim.'),
    'C12': ('5.C12 / 10.5', 'vacancy arithmetic for all maxima and counters (saturating, never wraps) + ' + STEP + '. Quick: application PUBREC frees the inbound slot exactly for error codes. Thorough: PUBACK / PUBCOMP (and whichever of PUBREC / send-at-the-limit / erase_stored_publish were decided, see DESIGN 10.5) with Receive Maximum M at full width. Retransmission counting on resume and the inbound limit are written but outside the claim (did not fit).'),
    'C13': ('5.C13 / 10.5', 'receive-side alias table kernel (all maxima / aliases), sender table clear(), automatic mapping under a size limit (new mapping sends topic + alias), tables dropped on close, server-side table only for Topic Alias Maximum > 0 (thorough). The sender-side manual / replacement steps against a receiver model are written but did not fit (outside the claim). ' + STEP),
    'C14': ('5.C14 / 10.5', 'size kernel for all Remaining Lengths + ' + STEP + '. PUBACK under every limit, automatically mapped PUBLISH under limits around its size (known finding KF1), inbound frame around the local limit (DISCONNECT 0x95, close, not delivered); thorough: a QoS1 PUBLISH refused as too large releases its id (17 min, 14 GB). The send_stored() filter (oversize stored PUBLISH / PUBREL dropped and released) is written in three forms, none of which is decided here (50 min / 20 GB): outside the claim, and the seeded change C14_a in that function is not reported.'),
    'C15': ('5.C15 / 10.5', STEP + '. Timer monitor on every step (cancel only if armed, flags == fold of events, nothing armed when disconnected, exact intervals by priority) for all keep-alive / override / Server Keep Alive / timeout values: PINGREQ send (v5.0), DISCONNECT, server receive-timer expiry (both versions), PINGRESP, close, server CONNECT (after another keep-alive); thorough: the other expiries, v3.1.1 PINGREQ, PUBREL while not connected.'),
    'C16': ('5.C16 / 10.5', 'handled-set export -> restore equality; restore_packets of one packet (QoS1 / QoS2 PUBLISH, PUBREL; v3.1.1 and v5.0) into a fresh client for every identifier: store content, in-use id, exactly the right wait set, re-registration refused. Multi-packet restores (order) exceed 28 GB and are outside the claim. The crash-point quantifier is discharged by state equality (exportable state = store + handled set); resume behaviour from a restored store is decided under C06 only for v3.1.1 PUBACK.'),
    'C17': ('5.C17 / 10.5', 'can_receive for all u8 x version x role against the MQTT table; CONNACK on an established connection is a protocol error and leaves the session untouched; thorough: process_recv_packet with a symbolic fixed-header byte for a v3.1.1 client and server (rejected => only a protocol error, state untouched; accepted => the handler of that type ran). v5.0 / undetermined-version dispatch did not fit (outside the claim).'),
    'C18': ('5.C18', 'each private validate_*_properties function decided against the specification table for property kind symbolic over all identifiers x occurrence count 1-2 x symbolic values, and every fixed-width / variable-byte property constructor and parser for all values; finite table fully covered except count>2'),
    'C19': ('5.C19 / 10.5', 'close-ordering monitor (no send after a close request in one list) on every step harness; own steps: DISCONNECT v3.1.1 and v5.0 (every reason code), keep-alive expiries, recv() framing error, oversize inbound frame (DISCONNECT, close, error in that order). ' + STEP),
    'C20': ('5.C20', 'inductive step of the allocator (arbitrary range, arbitrary valid pool of <=3 (thorough: 4) runs, one symbolic operation, universal probe) at full u16/u32 width + base case + u8 histories; base+step cover histories of any length whose pool stays within the run bound'),
}
NA = {
    'C01': 'two live endpoints exchanging bytes under symbolic interleaving/loss over many steps is out of reach of the engine on this code (one object, four public calls: 37 GB, no verdict); no single inductive step expresses end-to-end termination/exactly-once. One-sided ingredients are decided under C06/C07/C08/C09/C10/C12.',
}


def main():
    props = [json.loads(l)['id'] for l in open(os.path.join(ROOT, 'properties.jsonl'))]
    have = set()
    for h in registry.HARNESSES:
        have.update(h['props'].keys())
    checks = []
    na = []
    for p in props:
        if p in CLAIMS and p in have:
            ref, text = CLAIMS[p]
            checks.append({
                'property_id': p,
                'quick_cmd': 'bin/check %s --tier quick' % p,
                'thorough_cmd': 'bin/check %s --tier thorough' % p,
                'evidence_file': 'evidence/%s.json' % p,
                'replay_cmd_template': 'bin/check --replay {path}',
                'engine': 'kani-cbmc',
                'level_claimed': {'category': 'model_checking', 'text': text, 'design_ref': 'DESIGN.md ' + ref},
                'level_note': NOTE,
                'technique': TECH,
            })
        else:
            na.append({'property_id': p, 'reason': NA.get(p, 'check under construction in this session (harnesses not yet calibrated); see DESIGN.md section 5')})
    m = {
        'version': 1,
        'setup_cmd': 'bin/setup',
        'hooks': {
            'guard': 'cargo features verif-hooks / verif-models (both off by default) + cfg(kani)',
            'enable': 'cargo kani --features verif-hooks,verif-models with VERIF_HARNESS_DIR=/verif/harness (replay: --features verif-hooks only, real containers)',
            'baseline_off_cmd': 'cd /repo && cargo test --workspace --no-fail-fast --offline',
            'source_commits': ['23a5c46', '28a9b80', '9b9e0ae'],
            'add_only': True,
        },
        'engines': [{'name': 'kani-cbmc', 'path': 'bin/check', 'serves_properties': [c['property_id'] for c in checks],
                     'kind_free_text': 'Kani 0.68 proof harnesses included into /repo as cfg-guarded child modules, decided by CBMC 6.11 + CaDiCaL'}],
        'checks': checks,
        'not_applicable': na,
        'notes': 'fix commits in /repo: see known_findings.json ("fixed"). Exit 2 of bin/check = inconclusive (never a pass, never a violation).',
    }
    with open(os.path.join(ROOT, 'MANIFEST.json'), 'w') as f:
        json.dump(m, f, indent=1)
    print('claimed:', [c['property_id'] for c in checks])


if __name__ == '__main__':
    main()
