#!/usr/bin/env python3
"""Writes /verif/MANIFEST.json from the table below + the harness registry."""
import json, os, sys
ROOT = os.path.realpath(os.path.join(os.path.dirname(os.path.abspath(__file__)), '..'))
sys.path.insert(0, os.path.join(ROOT, 'lib'))
import registry

TECH = 'bounded model checking of the compiled Rust (Kani 0.68 -> CBMC 6.11 -> CaDiCaL SAT): kani::any() inputs/pre-states, tagged assertions, unwinding assertions on; counterexamples replayed natively with cargo kani playback'
NOTE = ('Trusted: Kani/CBMC/CaDiCaL; fixed-capacity array models of hashbrown/indexmap/BTreeSet (capacity 6, overflow is a reported failure; '
        'differentially tested against the real crates by setup); exact UTF-8 DFA stub for core::str::from_utf8; hand-written specification tables / reference encoders. '
        'Holds only inside the bounds written into the evidence file per harness; pointer checks off (safe Rust), Rust panics/overflow/bounds checks on.')

CLAIMS = {
    'C09': ('5.C09', 'PacketBuilder::feed decided against a reference framing for all byte strings of 2-3 (thorough: 4) bytes, all 1-4 byte Remaining Length encodings, '
                     'over-long lengths split at every point, and every partition into <=3 chunks (+ byte-at-a-time) of bounded streams with symbolic content; '
                     'the right level because chunk-independence is a for-all-inputs x for-all-cuttings statement that BMC can exhaust within the stated stream shapes'),
    'C15': ('5.C15', 'one symbolic API step per timer-relevant entry point from assigned reachable pre-states, with a timer monitor folding the event list (cancel only if armed, '
                     'flags == fold, nothing armed when disconnected, exact intervals by priority) for all keep-alive/override/Server-Keep-Alive/timeout values; inductive over histories'),
    'C18': ('5.C18', 'each private validate_*_properties function is decided against the specification table for property kind symbolic over all identifiers x occurrence count 1-2 x symbolic values, '
                     'and every fixed-width / variable-byte property constructor and parser for all values; finite table fully covered except count>2'),
    'C20': ('5.C20', 'inductive step of the allocator (arbitrary range, arbitrary valid pool of <=3 (thorough: 4) runs, one symbolic operation, universal probe) at full u16/u32 width + base case + u8 histories; '
                     'base+step cover histories of any length whose pool stays within the run bound'),
}
NA = {
    'C01': 'two live endpoints exchanging bytes under symbolic interleaving/loss over many steps is out of reach of the engine on this code (one object, four public calls: 37 GB, no verdict); no single inductive step expresses end-to-end termination/exactly-once. One-sided ingredients are decided under C06/C07/C08/C09/C10/C12.',
}


def main():
    props = [json.loads(l)['id'] for l in open(os.path.join(ROOT, 'properties.jsonl'))]
    have = set()
    for h in registry.HARNESSES:
        have.update(h['props'].keys())
    checks = []
    na = []
    for p in props:
        if p in CLAIMS and p in have:
            ref, text = CLAIMS[p]
            checks.append({
                'property_id': p,
                'quick_cmd': 'bin/check %s --tier quick' % p,
                'thorough_cmd': 'bin/check %s --tier thorough' % p,
                'evidence_file': 'evidence/%s.json' % p,
                'replay_cmd_template': 'bin/check --replay {path}',
                'engine': 'kani-cbmc',
                'level_claimed': {'category': 'model_checking', 'text': text, 'design_ref': 'DESIGN.md ' + ref},
                'level_note': NOTE,
                'technique': TECH,
            })
        else:
            na.append({'property_id': p, 'reason': NA.get(p, 'check under construction in this session (harnesses not yet calibrated); see DESIGN.md section 5')})
    m = {
        'version': 1,
        'setup_cmd': 'bin/setup',
        'hooks': {
            'guard': 'cargo features verif-hooks / verif-models (both off by default) + cfg(kani)',
            'enable': 'cargo kani --features verif-hooks,verif-models with VERIF_HARNESS_DIR=/verif/harness (replay: --features verif-hooks only, real containers)',
            'baseline_off_cmd': 'cd /repo && cargo test --workspace --no-fail-fast --offline',
            'source_commits': ['23a5c46'],
            'add_only': True,
        },
        'engines': [{'name': 'kani-cbmc', 'path': 'bin/check', 'serves_properties': [c['property_id'] for c in checks],
                     'kind_free_text': 'Kani 0.68 proof harnesses included into /repo as cfg-guarded child modules, decided by CBMC 6.11 + CaDiCaL'}],
        'checks': checks,
        'not_applicable': na,
        'notes': 'fix commits in /repo: see known_findings.json ("fixed"). Exit 2 of bin/check = inconclusive (never a pass, never a violation).',
    }
    with open(os.path.join(ROOT, 'MANIFEST.json'), 'w') as f:
        json.dump(m, f, indent=1)
    print('claimed:', [c['property_id'] for c in checks])


if __name__ == '__main__':
    main()
