#!/usr/bin/env python3
"""Generates the C18 harnesses (property placement / multiplicity / value rules) from the
MQTT v5.0 specification table 2-4 ("Properties"), written here by hand from the OASIS text.
Output: harness/property_h.rs and harness/v5_<packet>_h.rs (deterministic)."""
import os, sys

ROOT = os.path.realpath(os.path.join(os.path.dirname(os.path.abspath(__file__)), '..'))
OUT = os.path.join(ROOT, 'harness')

# id -> (variant name, value class)
PROPS = {
    1: ('PayloadFormatIndicator', 'pfi'), 2: ('MessageExpiryInterval', 'u32'), 3: ('ContentType', 'str'),
    8: ('ResponseTopic', 'str'), 9: ('CorrelationData', 'bin'), 11: ('SubscriptionIdentifier', 'vbi'),
    17: ('SessionExpiryInterval', 'u32'), 18: ('AssignedClientIdentifier', 'str'), 19: ('ServerKeepAlive', 'u16'),
    21: ('AuthenticationMethod', 'str'), 22: ('AuthenticationData', 'bin'), 23: ('RequestProblemInformation', 'u8'),
    24: ('WillDelayInterval', 'u32'), 25: ('RequestResponseInformation', 'u8'), 26: ('ResponseInformation', 'str'),
    28: ('ServerReference', 'str'), 31: ('ReasonString', 'str'), 33: ('ReceiveMaximum', 'u16'),
    34: ('TopicAliasMaximum', 'u16'), 35: ('TopicAlias', 'u16'), 36: ('MaximumQos', 'u8'), 37: ('RetainAvailable', 'u8'),
    38: ('UserProperty', 'pair'), 39: ('MaximumPacketSize', 'u32'), 40: ('WildcardSubscriptionAvailable', 'u8'),
    41: ('SubscriptionIdentifierAvailable', 'u8'), 42: ('SharedSubscriptionAvailable', 'u8'),
}
# MQTT v5.0 table 2-4: property id -> locations where it may appear
PLACEMENT = {
    1: ['publish', 'will'], 2: ['publish', 'will'], 3: ['publish', 'will'], 8: ['publish', 'will'], 9: ['publish', 'will'],
    11: ['publish', 'subscribe'], 17: ['connect', 'connack', 'disconnect'], 18: ['connack'], 19: ['connack'],
    21: ['connect', 'connack', 'auth'], 22: ['connect', 'connack', 'auth'], 23: ['connect'], 24: ['will'], 25: ['connect'],
    26: ['connack'], 28: ['connack', 'disconnect'],
    31: ['connack', 'puback', 'pubrec', 'pubrel', 'pubcomp', 'suback', 'unsuback', 'disconnect', 'auth'],
    33: ['connect', 'connack'], 34: ['connect', 'connack'], 35: ['publish'], 36: ['connack'], 37: ['connack'],
    38: ['connect', 'connack', 'publish', 'will', 'puback', 'pubrec', 'pubrel', 'pubcomp', 'subscribe', 'suback',
         'unsubscribe', 'unsuback', 'disconnect', 'auth'],
    39: ['connect', 'connack'], 40: ['connack'], 41: ['connack'], 42: ['connack'],
}
# (location, file, call expression on a `&Vec<Property>` named v)
LOCATIONS = [
    ('connect', 'connect', 'validate_connect_properties(&v).is_ok()'),
    ('will', 'connect', 'validate_will_properties(&v).is_ok()'),
    ('connack', 'connack', 'validate_connack_properties(&v).is_ok()'),
    ('publish', 'publish', 'validate_publish_properties(&v).is_ok()'),
    ('puback', 'puback', 'validate_puback_properties(&v).is_ok()'),
    ('pubrec', 'pubrec', 'validate_pubrec_properties(&v).is_ok()'),
    ('pubrel', 'pubrel', 'validate_pubrel_properties(&v).is_ok()'),
    ('pubcomp', 'pubcomp', 'validate_pubcomp_properties(&v).is_ok()'),
    ('subscribe', 'subscribe', 'validate_subscribe_properties(&v).is_ok()'),
    ('suback', 'suback', 'validate_suback_properties(&v).is_ok()'),
    ('unsubscribe', 'unsubscribe', 'validate_unsubscribe_properties(&v).is_ok()'),
    ('unsuback', 'unsuback', 'validate_unsuback_properties(&v).is_ok()'),
    ('disconnect', 'disconnect', 'validate_disconnect_properties(&v).is_ok()'),
    # AUTH without a reason code: only the property rules apply
    ('auth', 'auth', '{ let o = Some(v); let r = validate_auth_packet(None, &o).is_ok(); v = o.unwrap(); r }'),
]
REPEATABLE = {loc: {38} for loc, _, _ in LOCATIONS}
REPEATABLE['publish'].add(11)


def allowed(loc):
    return sorted(k for k, ls in PLACEMENT.items() if loc in ls)


def mk_fn():
    arms = []
    for k, (name, cls) in sorted(PROPS.items()):
        if cls == 'pfi':
            e = '%s::new(if v8 & 1 == 0 { PayloadFormat::Binary } else { PayloadFormat::String }).ok()?' % name
        elif cls == 'u8':
            e = '%s::new(v8).ok()?' % name
        elif cls == 'u16':
            e = '%s::new(v16).ok()?' % name
        elif cls == 'u32':
            e = '%s::new(v32).ok()?' % name
        elif cls == 'vbi':
            e = '%s::new(v32 & 0x0fff_ffff).ok()?' % name
        elif cls == 'str':
            e = '%s::new("a").ok()?' % name
        elif cls == 'bin':
            e = '%s::new(alloc::vec![1u8]).ok()?' % name
        else:
            e = '%s::new("k", "v").ok()?' % name
        arms.append('        %d => Property::%s(%s),' % (k, name, e))
    return '''/// Property of kind `k` (its specification identifier) with a symbolic value where the kind has one.
/// None if `k` is no property identifier or the constructor refuses the value.
pub(crate) fn mk(k: u8, v32: u32) -> Option<Property> {
    let v16 = v32 as u16;
    let v8 = v32 as u8;
    Some(match k {
%s
        _ => return None,
    })
}
''' % '\n'.join(arms)


def value_harnesses():
    out = []
    # spec value rules: which values the constructor / parser must reject
    rules = {
        'PayloadFormatIndicator': ('u8', 'v <= 1'), 'RequestProblemInformation': ('u8', 'v <= 1'),
        'RequestResponseInformation': ('u8', 'v <= 1'), 'MaximumQos': ('u8', 'v <= 1'), 'RetainAvailable': ('u8', 'v <= 1'),
        'WildcardSubscriptionAvailable': ('u8', 'v <= 1'), 'SubscriptionIdentifierAvailable': ('u8', 'v <= 1'),
        'SharedSubscriptionAvailable': ('u8', 'v <= 1'),
        'ServerKeepAlive': ('u16', 'true'), 'ReceiveMaximum': ('u16', 'v != 0'), 'TopicAliasMaximum': ('u16', 'true'),
        'TopicAlias': ('u16', 'v != 0'),
        'MessageExpiryInterval': ('u32', 'true'), 'SessionExpiryInterval': ('u32', 'true'), 'WillDelayInterval': ('u32', 'true'),
        'MaximumPacketSize': ('u32', 'v != 0'),
    }
    body = []
    for name, (ty, ok) in sorted(rules.items()):
        n = {'u8': 1, 'u16': 2, 'u32': 4}[ty]
        if name == 'PayloadFormatIndicator':
            newchk = ''
        else:
            newchk = '        assert!(%s::new(v).is_ok() == (%s), "[C18] %s::new accepts exactly the values the specification allows");\n' % (name, ok, name)
        body.append('''    {
        let v: %s = kani::any();
        let b = v.to_be_bytes();
%s        let r = %s::parse(&b[..]);
        assert!(r.is_ok() == (%s), "[C18] %s::parse accepts exactly the values the specification allows");
        if let Ok((p, used)) = r {
            assert!(used == %d && p.val() == v, "[C02] %s value and consumed length round-trip");
            let enc = p.to_continuous_buffer();
            assert!(enc.len() == %d && enc[0] == %d && p.size() == %d, "[C03] %s encoding: identifier byte then big-endian value");
            core::mem::forget(enc);
        }
    }
''' % (ty, newchk, name, ok, name, n, name, n + 1, [k for k, v in PROPS.items() if v[0] == name][0], n + 1, name))
    out.append('''// value rules of every fixed-width property kind, all values
#[kani::proof]
#[kani::unwind(6)]
fn c18_values_fixed_width() {
%s}
''' % ''.join(body))
    out.append('''// Subscription Identifier: variable byte integer 1..=268_435_455, zero forbidden
#[kani::proof]
#[kani::unwind(6)]
fn c18_values_subscription_identifier() {
    let v: u32 = kani::any();
    let r = SubscriptionIdentifier::new(v);
    assert!(r.is_ok() == (v != 0 && v <= 268_435_455), "[C18] SubscriptionIdentifier::new accepts exactly 1..=268435455");
    let b: [u8; 4] = kani::any();
    let pr = SubscriptionIdentifier::parse(&b[..]);
    // reference decoding of the variable byte integer
    let mut val: u32 = 0;
    let mut mult: u32 = 1;
    let mut k = 0;
    let mut complete = false;
    while k < 4 {
        val += ((b[k] & 0x7f) as u32) * mult;
        mult = mult.wrapping_mul(128);
        k += 1;
        if b[k - 1] & 0x80 == 0 {
            complete = true;
            break;
        }
    }
    match pr {
        Ok((p, used)) => {
            assert!(complete && used == k, "[C04] consumed length of a variable byte integer property");
            assert!(p.val() == val && val != 0, "[C18] parsed Subscription Identifier is non-zero and equals the encoded value");
        }
        Err(_) => {
            assert!(!complete || val == 0, "[C18] Subscription Identifier rejected only when malformed or zero");
        }
    }
}
''')
    return '\n'.join(out)


def expect_expr(loc, n):
    A = allowed(loc)
    R = REPEATABLE[loc]
    al = ' || '.join('k == %d' % k for k in A)
    rep = ' || '.join('k == %d' % k for k in sorted(R))
    s = '    let allowed = |k: u8| %s;\n    let repeatable = |k: u8| %s;\n' % (al, rep)
    if n == 1:
        e = 'allowed(k1)'
        if loc == 'auth':
            e += ' && k1 != 22'  # Authentication Data requires Authentication Method
    else:
        e = 'allowed(k1) && allowed(k2) && (k1 != k2 || repeatable(k1))'
        if loc == 'auth':
            e += ' && !((k1 == 22 || k2 == 22) && !(k1 == 21 || k2 == 21))'
    return s + '    let expect = %s;\n' % e


def table_harness(loc, call, n):
    decl = '    let k1: u8 = kani::any();\n    let p1 = match mk(k1, kani::any()) {\n        Some(p) => p,\n        None => return,\n    };\n'
    if n == 2:
        decl += '    let k2: u8 = kani::any();\n    let p2 = match mk(k2, kani::any()) {\n        Some(p) => p,\n        None => return,\n    };\n'
        vec = 'alloc::vec![p1, p2]'
    else:
        vec = 'alloc::vec![p1]'
    return '''// %s: %d propert%s, kind symbolic over all 27 identifiers, values symbolic
#[kani::proof]
#[kani::unwind(4)]
#[kani::stub(core::str::from_utf8, crate::verif_harness::utf8_model)]
fn c18_table_%s_n%d() {
%s    #[allow(unused_mut)]
    let mut v: Vec<Property> = %s;
    let ok = %s;
%s    kani::cover!(ok, "an accepted combination exists");
    kani::cover!(!ok, "a rejected combination exists");
    assert!(ok == expect, "[C18] %s accepts exactly the properties (and repetitions) the specification table allows");
    core::mem::forget(v);
}
''' % (loc, n, 'y' if n == 1 else 'ies', loc, n, decl, vec, call, expect_expr(loc, n), loc)


def main():
    with open(os.path.join(OUT, 'property_h.rs'), 'w') as f:
        f.write('// GENERATED by gen/gen_c18.py - do not edit.\n// Child module of src/mqtt/packet/property.rs\n#[allow(unused_imports)]\nuse super::*;\n\n')
        f.write(mk_fn())
        f.write('\n')
        f.write(value_harnesses())
    byfile = {}
    for loc, fil, call in LOCATIONS:
        byfile.setdefault(fil, []).append((loc, call))
    for fil in ['auth', 'connack', 'connect', 'disconnect', 'puback', 'pubcomp', 'publish', 'pubrec', 'pubrel', 'suback', 'subscribe', 'unsuback', 'unsubscribe']:
        with open(os.path.join(OUT, 'v5_%s_h.rs' % fil), 'w') as f:
            f.write('// GENERATED by gen/gen_c18.py - do not edit.\n// Child module of src/mqtt/packet/v5_0/%s.rs (validate_* functions are private)\n' % fil)
            f.write('#[allow(unused_imports)]\nuse super::*;\nuse crate::mqtt::packet::property::verif_harness::mk;\nuse crate::mqtt::packet::Property;\nuse alloc::vec::Vec;\n\n')
            for loc, call in byfile.get(fil, []):
                for n in (1, 2):
                    f.write(table_harness(loc, call, n))
                    f.write('\n')


if __name__ == '__main__':
    main()
