#!/usr/bin/env python3
"""Generates harness/c11_h.rs: one harness per (role, packet kind) through the public send(),
with connection version, status, need_store and offline_publish symbolic, against the MQTT send rules."""
import os
ROOT = os.path.realpath(os.path.join(os.path.dirname(os.path.abspath(__file__)), '..'))

# kind -> (v5?, constructor expression using `id`, role rule, status rule, carries own id?)
# role rule: 'client' = Client/Any may send, 'server' = Server/Any may send, 'any'
# status rule: 'disc' only disconnected, 'conning' only connecting, 'auth' connecting|connected, 'conn' only connected,
#              'pubq' connected, or not connected with (need_store||offline), 'pubrel' connected or need_store
KINDS = [
    ('v311_connect', False, 'GenericPacket::V3_1_1Connect(mk_connect_v311(kani::any(), kani::any()))', 'client', 'disc', False),
    ('v311_connack', False, 'GenericPacket::V3_1_1Connack(v3_1_1::Connack::builder().session_present(false).return_code(ConnectReturnCode::Accepted).build().unwrap())', 'server', 'conning', False),
    ('v311_publish_q0', False, 'GenericPacket::V3_1_1Publish(mk_pub311_q0())', 'any', 'conn', False),
    ('v311_publish_q1', False, 'GenericPacket::V3_1_1Publish(mk_pub311(1, id, false))', 'any', 'pubq', True),
    ('v311_puback', False, 'GenericPacket::V3_1_1Puback(v3_1_1::GenericPuback::builder().packet_id(id).build().unwrap())', 'any', 'conn', False),
    ('v311_pubrec', False, 'GenericPacket::V3_1_1Pubrec(v3_1_1::GenericPubrec::builder().packet_id(id).build().unwrap())', 'any', 'conn', False),
    ('v311_pubrel', False, 'GenericPacket::V3_1_1Pubrel(v3_1_1::GenericPubrel::builder().packet_id(id).build().unwrap())', 'any', 'pubrel', True),
    ('v311_pubcomp', False, 'GenericPacket::V3_1_1Pubcomp(v3_1_1::GenericPubcomp::builder().packet_id(id).build().unwrap())', 'any', 'conn', False),
    ('v311_subscribe', False, 'GenericPacket::V3_1_1Subscribe(v3_1_1::GenericSubscribe::<u16>::parse(&[(id >> 8) as u8, id as u8, 0, 1, b\'t\', 0]).unwrap().0)', 'client', 'conn', True),
    ('v311_suback', False, 'GenericPacket::V3_1_1Suback(v3_1_1::GenericSuback::<u16>::parse(&[(id >> 8) as u8, id as u8, 0]).unwrap().0)', 'server', 'conn', False),
    ('v311_unsubscribe', False, 'GenericPacket::V3_1_1Unsubscribe(v3_1_1::GenericUnsubscribe::<u16>::parse(&[(id >> 8) as u8, id as u8, 0, 1, b\'t\']).unwrap().0)', 'client', 'conn', True),
    ('v311_unsuback', False, 'GenericPacket::V3_1_1Unsuback(v3_1_1::GenericUnsuback::builder().packet_id(id).build().unwrap())', 'server', 'conn', False),
    ('v311_pingreq', False, 'GenericPacket::V3_1_1Pingreq(v3_1_1::Pingreq::new())', 'client', 'conn', False),
    ('v311_pingresp', False, 'GenericPacket::V3_1_1Pingresp(v3_1_1::Pingresp::new())', 'server', 'conn', False),
    ('v311_disconnect', False, 'GenericPacket::V3_1_1Disconnect(v3_1_1::Disconnect::new())', 'client', 'conn', False),
    ('v5_connect', True, 'GenericPacket::V5_0Connect(mk_connect_v5(kani::any(), kani::any()))', 'client', 'disc', False),
    ('v5_connack', True, 'GenericPacket::V5_0Connack(v5_0::Connack::parse(&[0, 0, 0]).unwrap().0)', 'server', 'conning', False),
    ('v5_publish_q0', True, 'GenericPacket::V5_0Publish(mk_pub5_q0())', 'any', 'conn', False),
    ('v5_publish_q1', True, 'GenericPacket::V5_0Publish(mk_pub5(1, id, false))', 'any', 'pubq', True),
    ('v5_puback', True, 'GenericPacket::V5_0Puback(v5_0::GenericPuback::builder().packet_id(id).build().unwrap())', 'any', 'conn', False),
    ('v5_pubrec', True, 'GenericPacket::V5_0Pubrec(v5_0::GenericPubrec::builder().packet_id(id).reason_code(PubrecReasonCode::UnspecifiedError).build().unwrap())', 'any', 'conn', False),
    ('v5_pubrel', True, 'GenericPacket::V5_0Pubrel(v5_0::GenericPubrel::builder().packet_id(id).build().unwrap())', 'any', 'pubrel', True),
    ('v5_pubcomp', True, 'GenericPacket::V5_0Pubcomp(v5_0::GenericPubcomp::builder().packet_id(id).build().unwrap())', 'any', 'conn', False),
    ('v5_subscribe', True, 'GenericPacket::V5_0Subscribe(v5_0::GenericSubscribe::<u16>::parse(&[(id >> 8) as u8, id as u8, 0, 0, 1, b\'t\', 0]).unwrap().0)', 'client', 'conn', True),
    ('v5_suback', True, 'GenericPacket::V5_0Suback(v5_0::GenericSuback::<u16>::parse(&[(id >> 8) as u8, id as u8, 0, 0]).unwrap().0)', 'server', 'conn', False),
    ('v5_unsubscribe', True, 'GenericPacket::V5_0Unsubscribe(v5_0::GenericUnsubscribe::<u16>::parse(&[(id >> 8) as u8, id as u8, 0, 0, 1, b\'t\']).unwrap().0)', 'client', 'conn', True),
    ('v5_unsuback', True, 'GenericPacket::V5_0Unsuback(v5_0::GenericUnsuback::<u16>::parse(&[(id >> 8) as u8, id as u8, 0, 0]).unwrap().0)', 'server', 'conn', False),
    ('v5_pingreq', True, 'GenericPacket::V5_0Pingreq(v5_0::Pingreq::new())', 'client', 'conn', False),
    ('v5_pingresp', True, 'GenericPacket::V5_0Pingresp(v5_0::Pingresp::new())', 'server', 'conn', False),
    ('v5_disconnect', True, 'GenericPacket::V5_0Disconnect(v5_0::Disconnect::builder().build().unwrap())', 'any', 'conn', False),
    ('v5_auth', True, 'GenericPacket::V5_0Auth(v5_0::Auth::builder().build().unwrap())', 'any', 'auth', False),
]
ROLES = [('client', 'CC'), ('server', 'SC'), ('any', 'AC')]

HEAD = '''// GENERATED by gen/gen_c11.py - do not edit. Included by core_h.rs as `c11`.
// C11: the send gating matrix through the public send(); one harness per (role, packet kind).
#[allow(unused_imports)]
use super::*;

fn mk_pub311_q0() -> v3_1_1::GenericPublish<u16> {
    let body: [u8; 4] = [0, 1, b't', 0x55];
    let arc: crate::mqtt::common::Arc<[u8]> = crate::mqtt::common::Arc::from(&body[..]);
    v3_1_1::GenericPublish::<u16>::parse(0, arc).unwrap().0
}
fn mk_pub5_q0() -> v5_0::GenericPublish<u16> {
    let body: [u8; 5] = [0, 1, b't', 0, 0x55];
    let arc: crate::mqtt::common::Arc<[u8]> = crate::mqtt::common::Arc::from(&body[..]);
    v5_0::GenericPublish::<u16>::parse(0, arc).unwrap().0
}
fn mk_connect_v5(ka: u16, clean: bool) -> v5_0::Connect {
    let b: [u8; 14] = [0, 4, b'M', b'Q', b'T', b'T', 5, (clean as u8) << 1, (ka >> 8) as u8, ka as u8, 0, 0, 1, b'c'];
    v5_0::Connect::parse(&b[..]).unwrap().0
}

/// status rule of the MQTT send matrix; st: 0 disconnected, 1 connecting, 2 connected
fn status_allows(rule: u8, st: u8, need_store: bool, offline: bool) -> bool {
    match rule {
        0 => st == 0,                                   // CONNECT
        1 => st == 1,                                   // CONNACK
        2 => st == 1 || st == 2,                        // AUTH
        3 => st == 2,                                   // everything else
        4 => st == 2 || offline || (need_store && st == 1), // QoS>0 PUBLISH: connected, offline publishing, or persistent while connecting
        _ => st == 2 || need_store,                     // PUBREL
    }
}

fn cell<R: RoleType>(pkt_v5: bool, role_ok: bool, rule: u8, own_id: bool, id: u16, mk: impl FnOnce() -> GenericPacket<u16>) {
    let vsel: u8 = kani::any();
    kani::assume(vsel <= 2);
    let ver = match vsel {
        0 => Version::V3_1_1,
        1 => Version::V5_0,
        _ => Version::Undetermined,
    };
    let mut c = GenericConnection::<R, u16>::new(ver);
    let st: u8 = kani::any();
    kani::assume(st <= 2);
    c.status = match st {
        0 => ConnectionStatus::Disconnected,
        1 => ConnectionStatus::Connecting,
        _ => ConnectionStatus::Connected,
    };
    c.need_store = kani::any();
    c.offline_publish = kani::any();
    if c.offline_publish {
        kani::assume(c.need_store); // set_offline_publish(true) implies need_store
    }
    c.is_client = R::IS_CLIENT;
    if own_id {
        use_ids(&mut c, &[id]);
    }
    // the same identifier value is also an inbound exchange in progress
    c.qos2_publish_handled.insert(id);
    c.publish_recv.insert(id);
    let need_store = c.need_store;
    let offline = c.offline_publish;
    let version_ok = (vsel == 1) == pkt_v5 && vsel != 2;
    let allowed = version_ok && role_ok && status_allows(rule, st, need_store, offline);
    kani::cover!(allowed, "an allowed cell");
    kani::cover!(!allowed && version_ok && role_ok, "a cell refused by connection state");
    let pre = tm_of(&c);
    let ev = c.send(mk());
    monitor(pre, &ev, &c);
    if allowed {
        assert!(count(&ev, is_any_err) == 0, "[C11] a send MQTT allows raises no error");
        if st == 2 {
            assert!(count(&ev, is_send) == 1, "[C11] an allowed packet is passed to the transport when connected");
        } else if rule == 0 || rule == 1 || rule == 2 {
            assert!(count(&ev, is_send) == 1, "[C11] CONNECT/CONNACK/AUTH are passed to the transport in their state");
        } else {
            assert!(count(&ev, is_send) == 0, "[C11] an offline/persistent publish or PUBREL is not sent while not connected");
        }
    } else {
        assert!(count(&ev, is_send) == 0 && count(&ev, is_close) == 0 && count(&ev, is_recv) == 0, "[C11] a disallowed packet is never passed to the transport");
        assert!(ev.len() >= 1 && is_any_err(&sm(&ev, 0)), "[C11] a disallowed send reports an error event");
        assert!(ev.len() <= 2, "[C11] at most the error and the release of the packet's own identifier");
        if ev.len() == 2 {
            assert!(own_id && is_released(&sm(&ev, 1), id) && !c.pid_man.is_used_id(id), "[C11] the only other event is the release of the packet's own identifier");
        }
        assert!(c.status as u8 == st, "[C11] refused send leaves the connection state unchanged");
        assert!(c.need_store == need_store && c.pid_puback.len() == 0 && c.pid_pubrec.len() == 0 && c.pid_pubcomp.len() == 0
            && c.pid_suback.len() == 0 && c.pid_unsuback.len() == 0 && sth::len(&c.store) == 0, "[C11] refused send records nothing");
        assert!(c.protocol_version == ver, "[C11] refused send leaves the version unchanged");
        assert!(c.qos2_publish_handled.contains(&id) && c.publish_recv.contains(&id), "[C11] refused send leaves inbound exchanges untouched");
    }
    core::mem::forget(ev);
    core::mem::forget(c);
}
'''


TYPES = {
    'v311_connect': 'v3_1_1::Connect', 'v311_connack': 'v3_1_1::Connack', 'v311_publish_q0': 'v3_1_1::GenericPublish<u16>',
    'v311_puback': 'v3_1_1::GenericPuback<u16>', 'v311_pubrec': 'v3_1_1::GenericPubrec<u16>', 'v311_pubrel': 'v3_1_1::GenericPubrel<u16>',
    'v311_pubcomp': 'v3_1_1::GenericPubcomp<u16>', 'v311_subscribe': 'v3_1_1::GenericSubscribe<u16>', 'v311_suback': 'v3_1_1::GenericSuback<u16>',
    'v311_unsubscribe': 'v3_1_1::GenericUnsubscribe<u16>', 'v311_unsuback': 'v3_1_1::GenericUnsuback<u16>', 'v311_pingreq': 'v3_1_1::Pingreq',
    'v311_pingresp': 'v3_1_1::Pingresp', 'v311_disconnect': 'v3_1_1::Disconnect',
    'v5_connect': 'v5_0::Connect', 'v5_connack': 'v5_0::Connack', 'v5_publish_q0': 'v5_0::GenericPublish<u16>', 'v5_puback': 'v5_0::GenericPuback<u16>',
    'v5_pubrec': 'v5_0::GenericPubrec<u16>', 'v5_pubrel': 'v5_0::GenericPubrel<u16>', 'v5_pubcomp': 'v5_0::GenericPubcomp<u16>',
    'v5_subscribe': 'v5_0::GenericSubscribe<u16>', 'v5_suback': 'v5_0::GenericSuback<u16>', 'v5_unsubscribe': 'v5_0::GenericUnsubscribe<u16>',
    'v5_unsuback': 'v5_0::GenericUnsuback<u16>', 'v5_pingreq': 'v5_0::Pingreq', 'v5_pingresp': 'v5_0::Pingresp', 'v5_disconnect': 'v5_0::Disconnect',
    'v5_auth': 'v5_0::Auth',
}

CONST_HEAD = """
// ---- compile-time-checked send: which packet types implement Sendable<Role, u16>
struct Probe<T, R>(core::marker::PhantomData<(T, R)>);
trait NotSendable {
    const SENDABLE: bool = false;
}
impl<T, R> NotSendable for Probe<T, R> {}
impl<T, R> Probe<T, R>
where
    R: RoleType,
    T: crate::mqtt::connection::sendable::Sendable<R, u16>,
{
    const SENDABLE: bool = true;
}

#[kani::proof]
fn c11_const_table() {
    let x: u8 = kani::any();
    kani::cover!(x == 0, "reachable");
"""


def const_table():
    lines = [CONST_HEAD]
    for kind, v5, ctor, rrule, srule, own in KINDS:
        if kind not in TYPES:
            continue
        t = TYPES[kind]
        for rname, rty in (('client', 'role::Client'), ('server', 'role::Server'), ('any', 'role::Any')):
            ok = rrule == 'any' or rname == 'any' or rname == rrule
            lines.append('    assert!(<Probe<%s, %s>>::SENDABLE == %s, "[C11] compile-time-checked send accepts %s for role %s exactly when the run-time check does");\n' % (t, rty, 'true' if ok else 'false', kind, rname))
    lines.append('}\n')
    return ''.join(lines)


def main():
    out = [HEAD, const_table()]
    names = []
    for kind, v5, ctor, rrule, srule, own in KINDS:
        rule = {'disc': 0, 'conning': 1, 'auth': 2, 'conn': 3, 'pubq': 4, 'pubrel': 5}[srule]
        for rname, rty in ROLES:
            role_ok = rrule == 'any' or rname == 'any' or rname == rrule
            name = 'c11_cell_%s_%s' % (rname, kind)
            names.append(name)
            out.append('''#[kani::proof]
#[kani::unwind(2)]
#[kani::stub(core::str::from_utf8, utf8_model)]
fn %s() {
    let id: u16 = kani::any();
    kani::assume(id != 0);
    cell::<role::%s>(%s, %s, %d, %s, id, || %s);
}
''' % (name, {'CC': 'Client', 'SC': 'Server', 'AC': 'Any'}[rty], 'true' if v5 else 'false', 'true' if role_ok else 'false', rule, 'true' if own else 'false', ctor))
    with open(os.path.join(ROOT, 'harness', 'c11_h.rs'), 'w') as f:
        f.write('\n'.join(out))
    return names


if __name__ == '__main__':
    main()
