#!/usr/bin/env python3
"""Prints the per-property harness tables (markdown) from the registry, for DESIGN.md 10.5."""
import sys, os
ROOT = os.path.realpath(os.path.join(os.path.dirname(os.path.abspath(__file__)), '..'))
sys.path.insert(0, os.path.join(ROOT, 'lib'))
import registry
by = {h['name']: h for h in registry.HARNESSES}
for p in sorted(registry.QUICK):
    q = [h['name'] for h in registry.select(p, 'quick', 0)]
    t = [h['name'] for h in registry.select(p, 'thorough', 0) if h['name'] not in q]
    print('**%s** quick (%d): %s' % (p, len(q), ', '.join('`%s`' % n for n in q)))
    if t:
        if False:
            pass
        else:
            print('  thorough adds (%d): %s' % (len(t), ', '.join('`%s`' % n for n in t)))
    print()
print('Outside every registered command (compiled, not decided within the limits; `bin/check DEV --only <name>`):')
later = [n for n, why in registry.EXPERIMENTAL.items() if why.startswith('not run on the final tree')]
for n, why in sorted(registry.EXPERIMENTAL.items()):
    if n not in later:
        print('* `%s` - %s' % (n, why))
if later:
    print('* %d further `c11_cell_<role>_<kind>` harnesses - not run on the final tree (time); same generator as the decided cells' % len(later))
