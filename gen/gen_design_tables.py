#!/usr/bin/env python3
"""Prints the per-property harness tables (markdown) from the registry, for DESIGN.md 10.5."""
import sys, os
ROOT = os.path.realpath(os.path.join(os.path.dirname(os.path.abspath(__file__)), '..'))
sys.path.insert(0, os.path.join(ROOT, 'lib'))
import registry
by = {h['name']: h for h in registry.HARNESSES}
for p in sorted(registry.QUICK):
    q = [h['name'] for h in registry.select(p, 'quick', 0)]
    t = [h['name'] for h in registry.select(p, 'thorough', 0) if h['name'] not in q]
    print('**%s** quick (%d): %s' % (p, len(q), ', '.join('`%s`' % n for n in q)))
    if t:
        if p == 'C11':
            t2 = [n for n in t if not n.startswith('c11_cell')]
            print('  thorough adds (%d): all %d `c11_cell_<role>_<kind>` harnesses%s' % (len(t), len(t) - len(t2), (', ' + ', '.join('`%s`' % n for n in t2)) if t2 else ''))
        else:
            print('  thorough adds (%d): %s' % (len(t), ', '.join('`%s`' % n for n in t)))
    print()
print('Outside every registered command (compiled, not decided within the limits; `bin/check DEV --only <name>`):')
for n, why in sorted(registry.EXPERIMENTAL.items()):
    print('* `%s` - %s' % (n, why))
