#!/usr/bin/env python3
"""Refreshes the generated parts of DESIGN.md (10.4 seeded-change table, 10.5 harness lists)."""
import os, re, subprocess, sys
ROOT = os.path.realpath(os.path.join(os.path.dirname(os.path.abspath(__file__)), '..'))
p = os.path.join(ROOT, 'DESIGN.md')
s = open(p).read()
for tag, gen in (('10.4', 'gen_seed_table.py'), ('10.5', 'gen_design_tables.py')):
    out = subprocess.run([sys.executable, os.path.join(ROOT, 'gen', gen)], stdout=subprocess.PIPE, check=True).stdout.decode()
    b, e = '<!-- BEGIN GENERATED %s -->' % tag, '<!-- END GENERATED %s -->' % tag
    i, j = s.index(b) + len(b), s.index(e)
    s = s[:i] + '\n' + out.rstrip('\n') + '\n' + s[j:]
open(p, 'w').write(s)
