#!/usr/bin/env python3
"""Prints the seeded-change table of DESIGN.md 10.4 from seeded/*/meta.json + result.json."""
import json, os
ROOT = os.path.realpath(os.path.join(os.path.dirname(os.path.abspath(__file__)), '..'))
print('| seeded change | property | what it changes | tier that reports it | harness (first failing obligation) |')
print('|---|---|---|---|---|')
for n in sorted(os.listdir(os.path.join(ROOT, 'seeded'))):
    d = os.path.join(ROOT, 'seeded', n)
    try:
        m = json.load(open(os.path.join(d, 'meta.json')))
    except Exception:
        continue
    try:
        rs = json.load(open(os.path.join(d, 'result.json')))
    except Exception:
        rs = []
    hit = None
    for tier in ('quick', 'thorough', 'dev'):
        for r in rs:
            if r['tier'] == tier and r['detected'] and hit is None:
                hit = (tier, r)
    what = (m.get('summary') or '').replace('|', '/').replace('\n', ' ')
    if len(what) > 160:
        what = what[:157] + '...'
    if hit:
        tier, r = hit
        v = r['violations'][0] if r['violations'] else {'harness': '?', 'failed': ''}
        msg = v['failed'].replace('|', '/')
        msg = msg.replace("This is a placeholder message; Kani doesn't support message formatted at runtime; ", '')
        if len(msg) > 110:
            msg = msg[:107] + '...'
        print('| %s | %s | %s | %s (%d s) | `%s`: %s |' % (n, m.get('property'), what, tier, r['wall_s'], v['harness'], msg))
    else:
        tried = ', '.join('%s: exit %d' % (r['tier'], r['exit']) for r in rs) or 'not evaluated'
        note = m.get('miss_note', '')
        print('| %s | %s | %s | **not reported** (%s) | %s |' % (n, m.get('property'), what, tried, note))
