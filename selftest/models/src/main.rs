// Differential self-test of the verification container models against the real crates
// (hashbrown::HashSet/HashMap, indexmap::IndexMap, alloc BTreeSet) on random operation sequences.
// Part of the trusted-base evidence (not a deciding step). Exit 0 iff no divergence.
#![allow(dead_code)]
extern crate alloc;
#[path = "../../../harness/verif_model.rs"]
mod verif_model;

use std::collections::BTreeSet as RealBTree;
type RealSet<T> = hashbrown::HashSet<T, foldhash::fast::RandomState>;
type RealMap<K, V> = hashbrown::HashMap<K, V, foldhash::fast::RandomState>;
type RealIndex<K, V> = indexmap::IndexMap<K, V, foldhash::fast::RandomState>;

struct Rng(u64);
impl Rng {
    fn next(&mut self) -> u64 {
        self.0 = self.0.wrapping_mul(6364136223846793005).wrapping_add(1442695040888963407);
        self.0 >> 33
    }
    fn below(&mut self, n: u64) -> u64 {
        self.next() % n
    }
}

// the library's interval comparator (overlap == Equal), copied from value_allocator.rs
#[derive(Debug, Clone, Eq, PartialEq)]
struct Iv {
    low: u16,
    high: u16,
}
impl PartialOrd for Iv {
    fn partial_cmp(&self, o: &Self) -> Option<core::cmp::Ordering> {
        Some(self.cmp(o))
    }
}
impl Ord for Iv {
    fn cmp(&self, o: &Self) -> core::cmp::Ordering {
        if self.high < o.low {
            core::cmp::Ordering::Less
        } else if o.high < self.low {
            core::cmp::Ordering::Greater
        } else {
            core::cmp::Ordering::Equal
        }
    }
}

fn main() {
    let seed: u64 = std::env::var("VERIF_SEED").ok().and_then(|s| s.parse().ok()).unwrap_or(0);
    let mut rng = Rng(0x9E3779B97F4A7C15 ^ seed.wrapping_mul(7919));
    let mut ops = 0u64;
    // ---- HashSet<u16>
    for _ in 0..2000 {
        let mut m = verif_model::HashSet::<u16>::default();
        let mut r = RealSet::<u16>::default();
        for _ in 0..30 {
            let x = rng.below(8) as u16;
            match rng.below(5) {
                0 | 1 => {
                    if r.len() < 6 || r.contains(&x) {
                        assert_eq!(m.insert(x), r.insert(x));
                    }
                }
                2 => assert_eq!(m.remove(&x), r.remove(&x)),
                3 => assert_eq!(m.contains(&x), r.contains(&x)),
                _ => {
                    if rng.below(10) == 0 {
                        let mut a: Vec<u16> = m.drain().collect();
                        let mut b: Vec<u16> = r.drain().collect();
                        a.sort();
                        b.sort();
                        assert_eq!(a, b);
                    }
                }
            }
            assert_eq!(m.len(), r.len());
            let mut a: Vec<u16> = m.iter().copied().collect();
            let mut b: Vec<u16> = r.iter().copied().collect();
            a.sort();
            b.sort();
            assert_eq!(a, b);
            ops += 1;
        }
    }
    // ---- HashMap<String, Vec<u16>> (as used by TopicAliasSend) and HashMap<u16, String>
    for _ in 0..2000 {
        let mut m = verif_model::HashMap::<String, Vec<u16>>::default();
        let mut r = RealMap::<String, Vec<u16>>::default();
        for _ in 0..30 {
            let k = ["a", "b", "c", "d"][rng.below(4) as usize].to_string();
            let v = rng.below(5) as u16;
            match rng.below(6) {
                0 => {
                    m.entry(k.clone()).or_insert_with(Vec::new).push(v);
                    r.entry(k.clone()).or_insert_with(Vec::new).push(v);
                }
                1 => assert_eq!(m.get(k.as_str()), r.get(k.as_str())),
                2 => assert_eq!(m.remove(k.as_str()), r.remove(k.as_str())),
                3 => {
                    if let Some(l) = m.get_mut(k.as_str()) {
                        l.retain(|&a| a != v);
                    }
                    if let Some(l) = r.get_mut(k.as_str()) {
                        l.retain(|&a| a != v);
                    }
                }
                4 => assert_eq!(m.insert(k.clone(), vec![v]), r.insert(k.clone(), vec![v])),
                _ => {
                    if rng.below(10) == 0 {
                        m.clear();
                        r.clear();
                    }
                }
            }
            assert_eq!(m.len(), r.len());
            for kk in ["a", "b", "c", "d"] {
                assert_eq!(m.get(kk), r.get(kk));
            }
            ops += 1;
        }
    }
    // ---- IndexMap<u16, String>
    for _ in 0..2000 {
        let mut m = verif_model::IndexMap::<u16, String>::default();
        let mut r = RealIndex::<u16, String>::default();
        for _ in 0..30 {
            let k = rng.below(8) as u16;
            let v = ["x", "y", "z"][rng.below(3) as usize].to_string();
            match rng.below(7) {
                0 | 1 => {
                    if r.len() < 6 || r.contains_key(&k) {
                        assert_eq!(m.insert(k, v.clone()), r.insert(k, v.clone()));
                    }
                }
                2 => assert_eq!(m.shift_remove(&k), r.shift_remove(&k)),
                3 => {
                    let i = rng.below(7) as usize;
                    assert_eq!(m.shift_remove_index(i), r.shift_remove_index(i));
                }
                4 => {
                    assert_eq!(m.get(&k), r.get(&k));
                    assert_eq!(m.contains_key(&k), r.contains_key(&k));
                    assert_eq!(m.get_full(&k).map(|(i, a, b)| (i, *a, b.clone())), r.get_full(&k).map(|(i, a, b)| (i, *a, b.clone())));
                }
                5 => {
                    if rng.below(10) == 0 {
                        m.clear();
                        r.clear();
                    }
                }
                _ => {}
            }
            assert_eq!(m.len(), r.len());
            let a: Vec<(u16, String)> = m.iter().map(|(a, b)| (*a, b.clone())).collect();
            let b: Vec<(u16, String)> = r.iter().map(|(a, b)| (*a, b.clone())).collect();
            assert_eq!(a, b, "IndexMap order");
            let ka: Vec<u16> = m.keys().copied().collect();
            let kb: Vec<u16> = r.keys().copied().collect();
            assert_eq!(ka, kb);
            let va: Vec<String> = m.values().cloned().collect();
            let vb: Vec<String> = r.values().cloned().collect();
            assert_eq!(va, vb);
            let ia: Vec<u16> = (&m).into_iter().map(|(a, _)| *a).collect();
            assert_eq!(ia, kb);
            ops += 1;
        }
    }
    // ---- BTreeSet<Iv> with the overlap comparator, used the way ValueAllocator uses it (disjoint intervals)
    for _ in 0..3000 {
        let mut m = verif_model::BTreeSet::<Iv>::new();
        let mut r = RealBTree::<Iv>::new();
        for _ in 0..30 {
            let lo = rng.below(40) as u16;
            let hi = lo + rng.below(4) as u16;
            let iv = Iv { low: lo, high: hi };
            match rng.below(6) {
                0 | 1 => {
                    // insert only if it stays disjoint (the allocator's discipline) and within capacity
                    let overlaps = r.iter().any(|x| x.cmp(&iv) == core::cmp::Ordering::Equal);
                    if !overlaps && r.len() < 6 {
                        assert_eq!(m.insert(iv.clone()), r.insert(iv.clone()));
                    } else if overlaps {
                        assert_eq!(m.insert(iv.clone()), r.insert(iv.clone()));
                    }
                }
                2 => assert_eq!(m.remove(&iv), r.remove(&iv)),
                3 => {
                    let p = Iv { low: lo, high: lo };
                    let a: Vec<Iv> = m.range(p.clone()..).cloned().collect();
                    let b: Vec<Iv> = r.range(p.clone()..).cloned().collect();
                    assert_eq!(a, b, "range(p..)");
                    let a: Option<Iv> = m.range(..p.clone()).next_back().cloned();
                    let b: Option<Iv> = r.range(..p.clone()).next_back().cloned();
                    assert_eq!(a, b, "range(..p).next_back()");
                }
                4 => {
                    if rng.below(10) == 0 {
                        m.clear();
                        r.clear();
                    }
                }
                _ => {}
            }
            assert_eq!(m.len(), r.len());
            let a: Vec<Iv> = m.iter().cloned().collect();
            let b: Vec<Iv> = r.iter().cloned().collect();
            assert_eq!(a, b, "BTreeSet order");
            ops += 1;
        }
    }
    println!("models-selftest: {} operations compared against hashbrown/indexmap/BTreeSet, 0 divergences (seed {})", ops, seed);
}
