"""Harness registry: which Kani harness serves which property in which tier, with bounds,
memory class, calibrated time and per-loop unwind whitelist."""

TRUSTED_BASE = [
    'Kani 0.68.0 (kani-compiler MIR->goto translation), CBMC 6.11.0, CaDiCaL',
    'container models harness/verif_model.rs (fixed-capacity array models of hashbrown::HashSet/HashMap, indexmap::IndexMap, alloc BTreeSet; capacity 6, exceeding it is a reported failure); validated natively against the real crates by setup (bin/selftest-models)',
    'exact byte-wise UTF-8 DFA (harness/lib_h.rs utf8_model) stubbed for core::str::from_utf8 where listed under "stubs"',
    'specification tables and reference encoders written by hand from the OASIS MQTT 3.1.1/5.0 documents (harness/*_h.rs)',
]
ASSUMPTIONS = [
    'claims hold only inside each harness\' stated bounds (see coverage.samples[].bounds); unwinding assertions are on, so a loop that needs more iterations is reported, not cut',
    'pointer/memory-safety instrumentation of CBMC is off (--no-memory-safety-checks): the crate is safe Rust apart from from_utf8_unchecked; Rust bounds checks, unwrap/expect/assert panics and arithmetic overflow remain checked (canaries verify this on every run)',
    'built without the `tracing` feature (log macros expand to nothing)',
    'connection-step harnesses start from assigned pre-states of script-reachable families (DESIGN 4.2); states outside the families are outside the claim',
]

HARNESSES = []


def H(name, file, props, **kw):
    d = dict(name=name, file=file, props=props)
    d.update(kw)
    HARNESSES.append(d)
    return d


# Per-loop unwind whitelist of the connection-step harnesses (DESIGN R8): the harness attribute sets the global
# bound to 2 (a loop over a concretely empty collection costs one exit test, phantom iterations over property
# lists are cut); loops that really iterate get their bound here. Unwinding assertions stay on: a loop that
# needs more than its bound is reported (inconclusive), never silently truncated.
STEP_UWS = [
    (r'4mqtt6packet', 6),                # loops of the packet modules (identifier bytes, entries, reason codes)
    (r'variable_byte_integer', 5),       # 1-4 byte integers
    (r'arrayvec', 6),
    (r'memcmp|compare_bytes|SlicePartialEq|5slice3cmp', 8),
    (r'value_allocator', 8),
    (r'connection5store', 8),
    (r'topic_alias_send|topic_alias_recv', 8),
    (r'retain_mut', 8),
    (r'connection4core', 5),             # loops of core.rs itself (drains, property scans, restore)
    (r'packet_builder', 8),
    (r'6cursor', 8),
    (r'mqtt_string|mqtt_binary|arc_payload', 8),
    (r'drop_glue', 10),                  # slot arrays of the container models (8 slots + 1)
    (r'verif_model', 10),                # container / event-list models: capacity + 1
    (r'verif_harness', 10),              # harness-side loops (monitor, count, reference models)
    # last (overrides the rules above): any loop over a list of properties - at most 2 properties in any harness,
    # phantom iterations (27-way switch each) are cut
    (r'8property8Property|8property.*Properties|_properties', 3),
]



CANARIES = [
    dict(name='canary_overflow', file='lib', props={}, expect_fail=True, est=5, timeout=300),
    dict(name='canary_oob', file='lib', props={}, expect_fail=True, est=5, timeout=300),
    dict(name='canary_pass', file='lib', props={}, est=5, timeout=300),
]


def canaries():
    return [dict(c) for c in CANARIES]


def select(prop, tier, seed=0):
    out = []
    opt = []
    for h in HARNESSES:
        t = h['props'].get(prop)
        if t is None:
            continue
        if tier == 'thorough' or t == 'quick':
            out.append(h)
        elif t == 'opt' and tier == 'quick':
            opt.append(h)
    if opt:
        # the quick tier adds one optional shape, rotated by the seed
        out.append(opt[seed % len(opt)])
    return out


# =============================================================================== C20
_alloc_enc = ['ValueAllocator::{allocate,first_vacant,use_value,deallocate,clear,is_used,interval_count}', 'ValueInterval::cmp', 'verif_model::BTreeSet (model)']
for ty, w in (('u16', 'quick'), ('u32', 'quick')):
    H('c20_step_%s_n3' % ty, 'value_allocator', {'C20': w, 'C08': 'thorough'}, est=150, timeout=900, mem='M',
      bounds='arbitrary range lowest<=highest over full %s; arbitrary valid pool of <=3 runs; one symbolic operation; universal probe q' % ty,
      symbolic='lowest, highest, n<=3, 3 interval pairs, q, op in {allocate, first_vacant, use_value(x), deallocate(x), clear}, x',
      encodes=_alloc_enc)
    H('c20_step_%s_n4' % ty, 'value_allocator', {'C20': 'thorough'}, est=400, timeout=2400, mem='M',
      bounds='as n3 with <=4 runs in the pre-state', symbolic='as n3', encodes=_alloc_enc)
H('c20_base_new_u16', 'value_allocator', {'C20': 'quick'}, est=10, timeout=300,
  bounds='all lowest<=highest, all probes q (u16)', symbolic='lowest, highest, q', encodes=['ValueAllocator::new', 'is_used', 'first_vacant'])
H('c20_base_new_u32', 'value_allocator', {'C20': 'quick'}, est=10, timeout=300,
  bounds='all lowest<=highest, all probes q (u32)', symbolic='lowest, highest, q', encodes=['ValueAllocator::new', 'is_used', 'first_vacant'])
H('c20_hist_u8_ops3', 'value_allocator', {'C20': 'thorough'}, est=200, timeout=1800, mem='M',
  bounds='all 3-operation histories from new(lowest,highest) over u8', symbolic='lowest, highest, q, 3 x (op, x)', encodes=_alloc_enc)

# =============================================================================== C09
_pb_enc = ['PacketBuilder::{new,feed,reset}', 'Cursor::{read,read_exact,position}', 'RawPacket::data_as_slice']
H('c09_f1_n2', 'packet_builder', {'C09': 'quick', 'C05': 'thorough'}, est=400, timeout=1800, mem='L',
  bounds='all 2-byte buffers fed to a fresh builder, calls repeated until exhausted', symbolic='2 bytes', encodes=_pb_enc)
H('c09_f1_n3', 'packet_builder', {'C09': 'thorough', 'C05': 'thorough'}, est=900, timeout=3600, mem='XL',
  bounds='all 3-byte buffers fed to a fresh builder, calls repeated until exhausted', symbolic='3 bytes', encodes=_pb_enc)
H('c09_f1_n4', 'packet_builder', {}, est=320, timeout=2400, mem='XL',
  bounds='all 4-byte buffers fed to a fresh builder', symbolic='4 bytes', encodes=_pb_enc)
H('c09_f1_header_value', 'packet_builder', {'C09': 'quick', 'C14': 'quick'}, est=60, timeout=900, mem='M',
  bounds='all 1-4 byte Remaining Length encodings (incl. non-minimal) with value > 0, header only', symbolic='5 bytes, k in 1..=4', encodes=_pb_enc)
for _c in (1, 2, 3, 4, 5):
    H('c09_f3_overlong_rl_cut%d' % _c, 'packet_builder', {}, est=200, timeout=1800, mem='M',
      bounds='fixed header + 4 continuation bytes (all other bits symbolic) fed %s, followed by a frame [h,1,d]' % ('in one piece' if _c == 5 else 'split after byte %d' % _c), symbolic='8 bytes', encodes=_pb_enc)
for nm, q in (('s1_three_frames', 'quick'), ('s2_nonminimal', 'thorough'), ('s3_four_byte_len', 'quick'), ('s4_error_then_frame', 'quick'),
              ('s5_partial_tail', 'thorough'), ('s6_three_byte_len', 'thorough')):
    H('c09_f2_' + nm, 'packet_builder', {'C09': q}, est=200, timeout=2400, mem='L',
      bounds='one concrete stream shape (frame sizes concrete, all non-length bytes symbolic); every partition into 1, 2 or 3 chunks and byte-at-a-time vs whole-frame feeding',
      symbolic='every byte that does not determine a length', encodes=_pb_enc)

# =============================================================================== connection steps (core_h.rs)
def S(name, props, **kw):
    kw.setdefault('est', 500)
    kw.setdefault('timeout', 3000)
    kw.setdefault('mem', 'M')
    kw.setdefault('uws', STEP_UWS)
    return H(name, 'core', props, **kw)


S('st_send_pingreq_v311_client', {'C15': 'quick', 'C19': 'thorough', 'C11': 'thorough'},
  bounds='one call of process_send_v3_1_1_pingreq on a connected client; keep-alive (u16 s), override Option<u64>, response timeout u64 and both timer flags symbolic',
  symbolic='keep-alive, override, pingresp timeout, timer flags', encodes=['process_send_v3_1_1_pingreq', 'send_post_process'])
S('st_send_pingreq_v5_client', {'C15': 'thorough', 'C19': 'thorough'},
  bounds='as v3.1.1 plus Server Keep Alive Option<u16 s> symbolic', symbolic='keep-alive, override, Server Keep Alive, pingresp timeout, timer flags',
  encodes=['process_send_v5_0_pingreq', 'send_post_process', 'validate_maximum_packet_size_send'])
S('st_send_disconnect_v311_client', {'C19': 'quick', 'C15': 'quick'},
  bounds='one call of process_send_v3_1_1_disconnect on a connected client, timer flags and configuration symbolic', symbolic='timer flags, timer configuration',
  encodes=['process_send_v3_1_1_disconnect', 'cancel_timers'])
S('st_send_disconnect_v5_server', {'C19': 'thorough', 'C15': 'thorough'},
  bounds='one call of process_send_v5_0_disconnect on a connected server, reason code over all u8, receive timer symbolic', symbolic='reason code byte, keep-alive, timer flag',
  encodes=['process_send_v5_0_disconnect', 'cancel_timers', 'v5_0::Disconnect::builder'])
S('st_timer_fired_v311_client', {'C15': 'thorough', 'C19': 'quick'},
  bounds='notify_timer_fired(PingreqSend|PingrespRecv) on a connected v3.1.1 client, fired only when armed', symbolic='timer kind, timer configuration, other flags',
  encodes=['notify_timer_fired', 'process_send_v3_1_1_pingreq'])
S('st_timer_fired_v5_client_pingresp', {'C15': 'thorough', 'C19': 'thorough'},
  bounds='notify_timer_fired(PingrespRecv) on a connected v5.0 client', symbolic='timer configuration, other flags', encodes=['notify_timer_fired', 'process_send_v5_0_disconnect'])
S('st_timer_fired_server_pingreq_recv', {'C15': 'quick', 'C19': 'thorough'},
  bounds='notify_timer_fired(PingreqRecv) on a connected server, version symbolic', symbolic='version, keep-alive', encodes=['notify_timer_fired', 'process_send_v5_0_disconnect'])
S('st_notify_closed_any', {'C10': 'quick', 'C15': 'quick', 'C08': 'quick', 'C07': 'thorough', 'C13': 'thorough', 'C06': 'thorough'},
  bounds='notify_closed from any status (role Any, version symbolic) with one pending subscribe id, one QoS1 id in flight, one handled QoS2 id, alias tables present or not, limits symbolic, optional half-received frame',
  symbolic='status, version, need_store, is_client, 3 timer flags, 2 size limits, 3 ids, partial frame bytes', encodes=['notify_closed', 'cancel_timers', 'PacketIdManager::release_id'])
S('st_recv_pingresp_client', {'C15': 'thorough'},
  bounds='PINGRESP received by a connected client, version and timer state symbolic', symbolic='version, timer flags/configuration',
  encodes=['process_recv_v3_1_1_pingresp', 'process_recv_v5_0_pingresp'])

# =============================================================================== C18
_c18_loc = [('connect', 'connect'), ('will', 'connect'), ('connack', 'connack'), ('publish', 'publish'), ('puback', 'puback'), ('pubrec', 'pubrec'),
            ('pubrel', 'pubrel'), ('pubcomp', 'pubcomp'), ('subscribe', 'subscribe'), ('suback', 'suback'), ('unsubscribe', 'unsubscribe'),
            ('unsuback', 'unsuback'), ('disconnect', 'disconnect'), ('auth', 'auth')]
for loc, fil in _c18_loc:
    for n in (1, 2):
        H('c18_table_%s_n%d' % (loc, n), 'v5_' + fil, {'C18': 'quick'}, est=70, timeout=900, mem='M', stubs=['core::str::from_utf8 -> utf8_model'],
          bounds='%d propert%s in the %s location; kind symbolic over all u8 (27 valid identifiers), integer values symbolic at full width, strings/binaries 1 byte' % (n, 'y' if n == 1 else 'ies', loc),
          symbolic='property kind(s), value(s)', encodes=['validate_%s_properties' % loc if loc != 'auth' else 'validate_auth_packet', 'Property constructors'])
H('c18_values_fixed_width', 'property', {'C18': 'quick', 'C02': 'thorough', 'C03': 'thorough'}, est=60, timeout=900, mem='M',
  bounds='every u8/u16/u32 property kind (16 kinds): new(v) and parse(bytes) for all values', symbolic='value per kind', encodes=['<Prop>::new', '<Prop>::parse', 'to_continuous_buffer', 'size'])
H('c18_values_subscription_identifier', 'property', {'C18': 'quick', 'C04': 'thorough'}, est=60, timeout=900, mem='M',
  bounds='SubscriptionIdentifier::new for all u32; parse for all 4-byte strings', symbolic='u32 value; 4 bytes', encodes=['SubscriptionIdentifier::{new,parse}', 'VariableByteInteger::decode_stream'])

# =============================================================================== codecs (codec_h.rs): C02 / C03 / C04
def K(name, props, **kw):
    kw.setdefault('est', 60)
    kw.setdefault('timeout', 1200)
    kw.setdefault('mem', 'M')
    return H(name, 'codec', props, **kw)


K('c02_vbi_all_u32', {'C02': 'quick', 'C03': 'quick'}, bounds='all u32 values', symbolic='v: u32',
  encodes=['VariableByteInteger::{from_u32,to_u32,size,as_bytes,decode_stream}'])
K('c04_vbi_decode_all', {'C04': 'quick', 'C02': 'thorough'}, bounds='all byte strings of length 0..=5', symbolic='5 bytes, length', encodes=['VariableByteInteger::decode_stream'])
K('c04_string_decode_n6', {'C04': 'quick'}, bounds='all byte strings of length 0..=6', symbolic='6 bytes, length', stubs=['core::str::from_utf8 -> utf8_model'], encodes=['MqttString::{decode,as_bytes,size,len}'])
K('c04_binary_decode_n6', {'C04': 'quick'}, bounds='all byte strings of length 0..=6', symbolic='6 bytes, length', encodes=['MqttBinary::{decode,as_bytes,size,len}'])
K('c02_string_new_n3', {'C02': 'quick', 'C03': 'quick'}, bounds='all well-formed UTF-8 strings of 0..=3 bytes', symbolic='3 bytes, length', stubs=['core::str::from_utf8 -> utf8_model'], encodes=['MqttString::{new,as_bytes,decode}'])
for k in ('puback', 'pubrec', 'pubrel', 'pubcomp', 'unsuback'):
    K('c02_v311_' + k, {'C02': 'quick' if k in ('puback', 'pubrel') else 'thorough', 'C03': 'quick' if k in ('puback', 'pubrel') else 'thorough'},
      bounds='all u16 and all u32 packet identifiers', symbolic='packet id (u16), packet id (u32)',
      encodes=['v3_1_1::%s::{builder,build,size,to_buffers,to_continuous_buffer,parse}' % k])
    K('c04_v311_%s_n4' % k, {'C04': 'quick' if k in ('puback',) else 'thorough'}, bounds='all byte strings of length 0..=4', symbolic='4 bytes, length', encodes=['v3_1_1::%s::parse' % k])
K('c02_v311_connack', {'C02': 'quick', 'C03': 'quick'}, bounds='session-present flag and return code over all u8', symbolic='flag, return-code byte', encodes=['v3_1_1::Connack', 'ConnectReturnCode::try_from'])
K('c04_v311_connack_n3', {'C04': 'quick'}, bounds='all byte strings of length 0..=3', symbolic='3 bytes, length', encodes=['v3_1_1::Connack::parse'])
K('c02_fixed_two_byte_packets', {'C02': 'quick', 'C03': 'quick', 'C04': 'quick'}, bounds='PINGREQ/PINGRESP/DISCONNECT (v3.1.1) and PINGREQ/PINGRESP (v5.0); parse of all bodies of length 0..=2', symbolic='2 bytes, length',
  encodes=['Pingreq/Pingresp/Disconnect::{new,size,to_buffers,to_continuous_buffer,parse}'])
for q in (0, 1, 2):
    K('c02_v311_publish_q%d' % q, {'C02': 'quick' if q == 1 else 'thorough', 'C03': 'quick' if q == 1 else 'thorough'}, est=120,
      bounds='PUBLISH QoS %d: DUP, RETAIN, 1-byte ASCII topic, packet id (all u16), 2 payload bytes symbolic' % q, symbolic='flags, topic byte, id, payload',
      stubs=['core::str::from_utf8 -> utf8_model'], encodes=['v3_1_1::GenericPublish::{builder,build,size,to_buffers,to_continuous_buffer,parse}'])
K('c04_v311_publish_struct', {'C04': 'quick'}, est=120, bounds='body [0,1,t,x,x,x] with 4 symbolic bytes and all 16 flag nibbles', symbolic='flags, 4 bytes',
  stubs=['core::str::from_utf8 -> utf8_model'], encodes=['v3_1_1::GenericPublish::parse'])

_st = ['core::str::from_utf8 -> utf8_model']
S('st_recv_puback_v311_persistent', {'C06': 'quick', 'C08': 'quick', 'C05': 'thorough', 'C19': 'thorough'}, stubs=_st,
  bounds='PUBACK(id r, all u16) received by a connected persistent v3.1.1 client with QoS1 id i and QoS2 id j in flight and stored (i, j symbolic)',
  symbolic='i, j, r, timer configuration', encodes=['process_recv_v3_1_1_puback', 'GenericStore::erase', 'PacketIdManager'])
S('st_recv_puback_v5_flow', {'C12': 'quick', 'C06': 'thorough', 'C08': 'thorough', 'C19': 'quick'}, stubs=_st,
  bounds='PUBACK(id r) received by a connected v5.0 client, Receive Maximum M (all u16 >= 2), two exchanges in flight', symbolic='M, i, j, r', encodes=['process_recv_v5_0_puback', 'handle_v5_0_error'])
S('st_recv_pubrec_v5_flow', {'C12': 'thorough', 'C06': 'quick', 'C08': 'thorough'}, stubs=_st,
  bounds='PUBREC(id r, every defined reason code) received by a connected v5.0 client, M symbolic, auto response symbolic', symbolic='M, i, j, r, reason code, auto flag',
  encodes=['process_recv_v5_0_pubrec', 'process_send_v5_0_pubrel'])
S('st_recv_pubcomp_flow', {'C12': 'thorough', 'C06': 'thorough', 'C08': 'thorough'}, stubs=_st,
  bounds='PUBCOMP(id r) received, version symbolic, one id awaiting PUBACK and one awaiting PUBCOMP', symbolic='version, M, i, k, r', encodes=['process_recv_v3_1_1_pubcomp', 'process_recv_v5_0_pubcomp'])
S('st_send_publish_v311_q1_persistent', {'C06': 'quick', 'C08': 'thorough', 'C11': 'thorough'}, stubs=_st,
  bounds='QoS1 PUBLISH (id all u16, registered or not) sent on a connected persistent v3.1.1 client', symbolic='id, registered, timer configuration', encodes=['process_send_v3_1_1_publish', 'GenericStore::add'])
S('st_send_publish_v5_flow', {'C12': 'quick', 'C08': 'quick', 'C06': 'thorough'}, stubs=_st,
  bounds='QoS1/2 PUBLISH sent on a connected non-persistent v5.0 client; Receive Maximum M and counter symbolic at full width (count <= M)', symbolic='M, count, id, QoS', encodes=['process_send_v5_0_publish'])
S('st_recv_publish_q2_v311', {'C07': 'quick', 'C05': 'quick', 'C04': 'thorough'}, stubs=_st,
  bounds='QoS2 PUBLISH (id r all u16 incl. 0, DUP symbolic) received by a connected v3.1.1 client with one handled id h; auto response symbolic', symbolic='h, r, dup, auto flag, payload byte',
  encodes=['process_recv_v3_1_1_publish', 'v3_1_1::GenericPublish::parse', 'process_send_v3_1_1_pubrec'])
S('st_recv_pubrel_flow', {'C07': 'quick'}, stubs=_st,
  bounds='PUBREL(id r) received, version symbolic, two handled ids', symbolic='version, h, g, r, auto flag', encodes=['process_recv_v3_1_1_pubrel', 'process_recv_v5_0_pubrel'])
S('st_reuse_client_v311_clean_connect', {'C10': 'quick', 'C07': 'thorough'}, stubs=_st,
  bounds='two objects: a disconnected reused v3.1.1 client with symbolic leftovers (maxima, keep-alive values, one handled QoS2 id, one in-flight id) vs a fresh client, both sending a clean-session CONNECT with the same keep-alive',
  symbolic='leftover fields, h, i, keep-alive', encodes=['process_send_v3_1_1_connect', 'initialize', 'clear_store_related'])

H('c17_can_receive_table', 'core', {'C17': 'quick'}, est=20, timeout=600, mem='M', uws=STEP_UWS,
  bounds='can_receive(t) for all u8 t x {v3.1.1, v5.0} x {Client, Server, Any}', symbolic='t, version', encodes=['GenericConnection::can_receive (3 role instantiations)'])
for v in ('v311', 'v5'):
    S('st_dispatch_client_' + v, {'C17': 'quick' if v == 'v311' else 'thorough', 'C05': 'thorough'}, stubs=_st, est=600, mem='L',
      bounds='process_recv_packet on a connected %s client with a symbolic fixed-header byte (all non-PUBLISH type nibbles and flags), empty body, one id in flight' % v,
      symbolic='fixed-header byte, id, timer configuration', encodes=['process_recv_packet', 'can_receive', 'every process_recv_* handler reachable with an empty body'])
    S('st_dispatch_server_' + v, {'C17': 'thorough' if v == 'v311' else 'quick', 'C05': 'thorough'}, stubs=_st, est=600, mem='L',
      bounds='process_recv_packet on a connected %s server with a symbolic fixed-header byte (all non-PUBLISH type nibbles and flags), empty body' % v,
      symbolic='fixed-header byte, keep-alive', encodes=['process_recv_packet', 'can_receive', 'every process_recv_* handler reachable with an empty body'])
S('st_undetermined_first_packet', {'C17': 'quick', 'C05': 'thorough'}, stubs=_st, est=600, mem='L',
  bounds='first packet on an undetermined-version server: symbolic fixed-header byte (non-PUBLISH), body "MQTT"+level byte (all u8) or truncated', symbolic='fixed-header byte, protocol level, truncated?',
  encodes=['process_recv_packet (Version::Undetermined branch)', 'process_recv_v3_1_1_connect', 'process_recv_v5_0_connect'])

# =============================================================================== C13 kernels
H('c13_alias_send_hist2', 'topic_alias_send', {'C13': 'quick'}, est=300, timeout=2400, mem='L',
  bounds='all histories of 2 operations (bind (topic in {a,b,c}, alias in 1..=max) | validate alias 0..=4) from TopicAliasSend::new(max), max in 1..=2; afterwards every alias, topic and the LRU victim compared with the receiver/LRU model',
  symbolic='max, 2 x (op, alias, topic)', encodes=['TopicAliasSend::{new,insert_or_update,get,peek,find_by_topic,get_lru_alias}', 'ValueAllocator', 'container models'])
H('c13_alias_send_clear', 'topic_alias_send', {'C13': 'quick'}, est=60, timeout=900, mem='M',
  bounds='max and alias over all u16; one binding then clear()', symbolic='max, alias, probe', encodes=['TopicAliasSend::{insert_or_update,clear,peek,find_by_topic}'])
H('c13_alias_recv_hist2', 'topic_alias_recv', {'C13': 'quick'}, est=60, timeout=900, mem='M',
  bounds='max, two aliases and a probe over all u16; topics in {a,b}', symbolic='max, a1, a2, topics, probe', encodes=['TopicAliasRecv::{new,insert_or_update,get,clear}'])

# =============================================================================== C08 kernels
H('c08_pidman_step_u16', 'packet_id_manager', {'C08': 'quick'}, est=200, timeout=1800, mem='M',
  bounds='PacketIdManager<u16> over an arbitrary valid allocator state (<= 3 free runs within 1..=65535), one symbolic call (acquire | register(x) | release(x) for used x), universal probe q',
  symbolic='3 runs, n, op, x, q', encodes=['PacketIdManager::{acquire_unique_id,register_id,is_used_id,release_id}', 'ValueAllocator'])
S('st_id_calls_total', {'C08': 'quick', 'C05': 'thorough'}, est=200,
  bounds='release_packet_id / register_packet_id / acquire_packet_id on a connection with two ids in use, argument over all u16 (incl. 0 and max), release called twice',
  symbolic='a, b, q, op', encodes=['release_packet_id', 'register_packet_id', 'acquire_packet_id'])

# =============================================================================== C14
H('c14_total_size_kernel', 'core', {'C14': 'quick'}, est=20, timeout=600, mem='M', uws=STEP_UWS,
  bounds='remaining_length_to_total_size(rl) for all rl <= 268435455', symbolic='rl', encodes=['remaining_length_to_total_size', 'VariableByteInteger::from_u32'])
S('st_send_puback_v5_limit', {'C14': 'quick'}, est=300,
  bounds='v5.0 PUBACK (4 bytes) sent by a connected server under a peer limit L over all u32 >= 1', symbolic='L, id, keep-alive', encodes=['process_send_v5_0_puback', 'validate_maximum_packet_size_send'])
S('st_send_publish_v5_limit', {'C14': 'quick', 'C08': 'quick'}, stubs=_st, est=500,
  bounds='v5.0 QoS1 PUBLISH (9 bytes) sent by a connected client under a limit L in 7..=11', symbolic='L, id', encodes=['process_send_v5_0_publish'])
S('st_send_publish_v5_automap_limit', {'C14': 'quick', 'C13': 'thorough'}, stubs=_st, est=500, mem='L',
  bounds='v5.0 QoS0 PUBLISH (7 bytes) with automatic alias mapping on (Topic Alias Maximum 3, empty table) under a limit L in 6..=12', symbolic='L', encodes=['process_send_v5_0_publish', 'TopicAliasSend', 'GenericPublish::add_topic_alias'])
S('st_recv_packet_too_large', {'C14': 'quick', 'C19': 'thorough'}, stubs=_st, est=500,
  bounds='a 5-byte frame received by a connected v5.0 server under a local limit L over all u32 >= 1', symbolic='L, keep-alive', encodes=['process_recv_packet', 'process_send_v5_0_disconnect'])

# =============================================================================== C06 resume / C16 restore
S('st_recv_connack_v311_resume', {'C06': 'quick', 'C16': 'quick', 'C08': 'thorough'}, stubs=_st, est=500,
  bounds='CONNACK (accepted, session present symbolic) received by a connecting persistent v3.1.1 client with stored [QoS1 PUBLISH(i), PUBREL(k)], ids symbolic', symbolic='i, k, session present, keep-alive',
  encodes=['process_recv_v3_1_1_connack', 'send_stored', 'clear_store_related'])
S('st_restore_packets_v311', {'C16': 'quick'}, stubs=_st, est=500,
  bounds='restore_packets([QoS1 PUBLISH(i), QoS2 PUBLISH(j), PUBREL(k)]) into a fresh v3.1.1 client, ids symbolic; then acquire/register', symbolic='i, j, k', encodes=['restore_packets', 'acquire_packet_id', 'register_packet_id'])
S('st_restore_packets_duplicate_id', {'C16': 'quick'}, stubs=_st, est=400,
  bounds='restore_packets([QoS1 PUBLISH(i), QoS2 PUBLISH(i)]) (duplicate identifier)', symbolic='i', encodes=['restore_packets'])
S('st_handled_export_restore', {'C16': 'quick', 'C07': 'quick'}, est=100,
  bounds='get_qos2_publish_handled -> restore_qos2_publish_handled into a fresh object, two ids, universal probe', symbolic='h, g, q', encodes=['get_qos2_publish_handled', 'restore_qos2_publish_handled'])

# =============================================================================== C11 send matrix (c11_h.rs, generated)
import os as _os, sys as _sys
_sys.path.insert(0, _os.path.join(_os.path.dirname(_os.path.abspath(__file__)), '..', 'gen'))
import gen_c11 as _g11
H('c11_const_table', 'c11', {'C11': 'quick'}, est=20, timeout=600, mem='M',
  bounds='29 packet types x 3 roles: `T: Sendable<Role, u16>` evaluated at compile time against the run-time role rule of send()', symbolic='none (finite table)',
  encodes=['Sendable / SendableRole / SendableVersion trait impl tables'])
_c11_quick = {'c11_cell_client_v311_subscribe', 'c11_cell_server_v5_connack', 'c11_cell_any_v5_publish_q1', 'c11_cell_client_v311_pubrel'}
_c11_opt = {'c11_cell_server_v311_pingreq', 'c11_cell_client_v5_auth', 'c11_cell_any_v311_connect', 'c11_cell_server_v5_suback', 'c11_cell_client_v5_disconnect', 'c11_cell_any_v311_publish_q0'}
for _kind, _v5, _ctor, _rr, _sr, _own in _g11.KINDS:
    for _rn, _rt in _g11.ROLES:
        _n = 'c11_cell_%s_%s' % (_rn, _kind)
        _t = 'quick' if _n in _c11_quick else ('opt' if _n in _c11_opt else 'thorough')
        H(_n, 'c11', {'C11': _t}, est=500, timeout=3600, mem='M', stubs=_st, uws=STEP_UWS,
          bounds='public send() of one %s packet on a %s-role connection: connection version in {v3.1.1, v5.0, undetermined}, status in {disconnected, connecting, connected}, need_store and offline_publish symbolic (36 cells)' % (_kind, _rn),
          symbolic='version, status, need_store, offline_publish, packet id', encodes=['GenericConnection::send', 'process_send_* of that kind'])

S('st_recv_connect_v311_server', {'C15': 'quick', 'C10': 'quick', 'C05': 'thorough', 'C17': 'thorough'}, stubs=_st, est=500,
  bounds='CONNECT (keep-alive all u16, clean flag symbolic) received by a disconnected v3.1.1 server that kept the receive timeout of an earlier connection (all u16)', symbolic='old keep-alive, keep-alive, clean, need_store',
  encodes=['process_recv_v3_1_1_connect', 'v3_1_1::Connect::parse', 'initialize', 'refresh_pingreq_recv'])
S('st_recv_connect_v5_server_tam', {'C05': 'quick', 'C13': 'thorough'}, stubs=_st, est=900, mem='XL', timeout=3600,
  uws=STEP_UWS,
  bounds='v5.0 CONNECT with one property Topic Alias Maximum (all u16 incl. 0), keep-alive all u16, received by a disconnected server', symbolic='keep-alive, Topic Alias Maximum',
  encodes=['process_recv_v5_0_connect', 'v5_0::Connect::parse', 'Properties::parse', 'TopicAliasSend::new'])

for _v in ('v311', 'v5'):
    S('st_send_publish_%s_never_dropped' % _v, {'C06': 'quick' if _v == 'v311' else 'thorough', 'C11': 'thorough', 'C08': 'thorough'}, stubs=_st, est=600, mem='L',
      bounds='QoS1/2 PUBLISH (%s) sent in every status x need_store x offline_publish combination (client), id symbolic' % _v, symbolic='status, need_store, offline_publish, QoS, id',
      encodes=['process_send_%s_publish' % ('v3_1_1' if _v == 'v311' else 'v5_0'), 'GenericStore::add'])

S('st_erase_stored_publish_v5', {'C12': 'quick', 'C06': 'thorough', 'C08': 'thorough'}, stubs=_st, est=500,
  bounds='erase_stored_publish(x), x over all u16, on a persistent v5.0 client with stored [QoS1|2 PUBLISH(i), PUBREL(k)], Receive Maximum M symbolic', symbolic='i, k, x, QoS, M',
  encodes=['erase_stored_publish', 'GenericStore::erase_publish'])

S('st_send_pubrec_v5_handled', {'C07': 'quick', 'C12': 'thorough'}, est=400,
  bounds='PUBREC (no reason code, or any defined reason code) sent by a connected v5.0 server for a handled QoS2 id; another handled id present', symbolic='h, g, reason code byte, with/without reason code',
  encodes=['process_send_v5_0_pubrec', 'v5_0::GenericPubrec::builder', 'PubrecReasonCode::try_from'])

# v5.0 codecs
for k in ('puback', 'pubrec', 'pubrel', 'pubcomp'):
    K('c02_v5_' + k, {'C02': 'quick' if k == 'puback' else 'thorough', 'C03': 'quick' if k == 'puback' else 'thorough'}, est=200, stubs=[],
      bounds='v5.0 %s without properties: identifier over all u16; with and without reason code (every defined code)' % k.upper(), symbolic='id, reason-code byte',
      encodes=['v5_0::%s::{builder,build,size,to_buffers,to_continuous_buffer,parse}' % k])
    K('c04_v5_%s_n3' % k, {'C04': 'quick' if k == 'puback' else 'thorough'}, est=300, stubs=_st, mem='L',
      bounds='all byte strings of length 0..=3 (identifier, reason code)', symbolic='3 bytes, length', encodes=['v5_0::%s::parse' % k, 'Properties::parse'])
K('c04_v5_suback_nonminimal_proplen', {'C04': 'quick'}, est=300, stubs=_st, mem='L',
  bounds='v5.0 SUBACK body [id, 0x80 0x00 (Property Length 0 in two bytes), reason code], id and code symbolic', symbolic='id, reason code', encodes=['v5_0::GenericSuback::parse', 'size', 'to_continuous_buffer'])
for q in (0, 1):
    K('c02_v5_publish_q%d' % q, {'C02': 'quick' if q == 1 else 'thorough', 'C03': 'quick' if q == 1 else 'thorough'}, est=300, stubs=_st, mem='L',
      bounds='v5.0 PUBLISH QoS %d without properties: DUP, RETAIN, 1-byte ASCII topic, packet id (all u16), 2 payload bytes symbolic' % q, symbolic='flags, topic byte, id, payload',
      encodes=['v5_0::GenericPublish::{builder,build,size,to_buffers,to_continuous_buffer,parse}'])
K('c04_v5_publish_struct', {'C04': 'quick'}, est=300, stubs=_st, mem='L',
  bounds='v5.0 PUBLISH body [0,1,t,x,x,0] truncated to 3..=6 bytes, all 16 flag nibbles', symbolic='flags, 3 bytes, length', encodes=['v5_0::GenericPublish::parse'])
K('c02_v5_connack_disconnect_auth', {'C02': 'quick', 'C03': 'quick'}, est=300, stubs=_st, mem='L',
  bounds='v5.0 CONNACK (flag, every reason code), DISCONNECT (with/without reason code), AUTH (empty), no properties', symbolic='flag, reason-code byte',
  encodes=['v5_0::{Connack,Disconnect,Auth}::{builder,build,size,to_buffers,to_continuous_buffer,parse}'])
K('c03_numeric_tables', {'C03': 'quick'}, est=30,
  bounds='PropertyId, every reason/return-code enum and Qos: try_from(b) for all u8 against the specification tables', symbolic='b', encodes=['TryFrom<u8> of 14 enums'])

for _v in ('v311', 'v5'):
    S('st_recv_framing_error_' + _v, {'C19': 'quick' if _v == 'v5' else 'thorough', 'C09': 'thorough', 'C05': 'thorough'}, est=400,
      bounds='recv() of a fixed header + four continuation bytes (all other bits symbolic) on a connected %s client, timers symbolic' % _v, symbolic='5 bytes, timer flags', encodes=['GenericConnection::recv', 'PacketBuilder::feed', 'cancel_timers'])
S('st_recv_two_packets_one_buffer', {'C09': 'quick'}, est=500,
  bounds='recv() three times on one buffer holding PINGRESP + PUBACK(i), id symbolic', symbolic='i, timer configuration', encodes=['GenericConnection::recv', 'PacketBuilder::feed', 'process_recv_packet'])
K('c04_v311_connect_prefixes', {'C04': 'quick', 'C03': 'thorough', 'C05': 'thorough'}, est=400, stubs=_st, mem='L',
  bounds='every prefix (0..=13 bytes) of a v3.1.1 CONNECT body; keep-alive and clean flag symbolic', symbolic='2 bytes, clean flag',
  encodes=['v3_1_1::Connect::parse', 'size', 'to_continuous_buffer', 'accessors'])
K('c04_v5_connect_prefixes', {'C04': 'thorough', 'C03': 'thorough'}, est=600, stubs=_st, mem='XL',
  bounds='every prefix (0..=14 bytes) of a v5.0 CONNECT body without properties', symbolic='3 bytes, clean flag', encodes=['v5_0::Connect::parse'])
K('c04_subscribe_family_prefixes', {'C04': 'thorough', 'C03': 'thorough'}, est=600, stubs=_st, mem='XL',
  bounds='every prefix of SUBSCRIBE / UNSUBSCRIBE bodies (v3.1.1 and v5.0, one 1-byte topic filter)', symbolic='4 bytes', encodes=['{v3_1_1,v5_0}::{GenericSubscribe,GenericUnsubscribe}::parse', 'SubEntry::parse'])
K('c04_suback_family_prefixes', {'C04': 'thorough', 'C03': 'thorough'}, est=600, stubs=_st, mem='XL',
  bounds='every prefix of SUBACK (v3.1.1, v5.0) and UNSUBACK (v5.0) bodies with one code', symbolic='3 bytes', encodes=['{v3_1_1,v5_0}::GenericSuback::parse', 'v5_0::GenericUnsuback::parse'])

# =============================================================================== C13 steps
_uw_props = STEP_UWS
S('st_send_publish_v5_manual_alias_bind', {'C13': 'quick'}, stubs=_st, est=900, mem='XL', timeout=3600,
  bounds='v5.0 QoS0 PUBLISH (topic in {a,b}) with Topic Alias ax (all u16 >= 1) sent by a connected client whose table (max 3) holds two earlier bindings (aliases, topics symbolic); sender table compared with a receiver model for aliases 1..=3',
  symbolic='k1, k2, a1, a2, kx, ax', encodes=['process_send_v5_0_publish', 'validate_topic_alias_range', 'TopicAliasSend::{insert_or_update,peek}', 'v5_0::GenericPublish::parse'])
S('st_send_publish_v5_alias_resolve', {'C13': 'quick'}, stubs=_st, est=900, mem='XL', timeout=3600,
  bounds='v5.0 QoS0 PUBLISH: (a) empty topic + alias (all u16 >= 1) with/without table and binding, (b) plain topic with automatic replacement on', symbolic='table present, k1, a1, auto-replace, kx, ax',
  encodes=['process_send_v5_0_publish', 'validate_topic_alias', 'TopicAliasSend::{get,find_by_topic}', 'remove_topic_add_topic_alias'])
S('st_recv_publish_v5_alias', {'C13': 'quick', 'C19': 'thorough'}, stubs=_st, est=900, mem='XL', timeout=3600,
  bounds='v5.0 QoS0 PUBLISH with Topic Alias (all u16 >= 1), with or without topic, received by a connected server with/without an alias table (max 3) holding one binding', symbolic='table present, k1, a1, ax, with topic, kx',
  encodes=['process_recv_v5_0_publish', 'TopicAliasRecv', 'add_extracted_topic_name', 'handle_v5_0_error'])
S('st_recv_connect_v5_server', {'C05': 'quick', 'C15': 'thorough', 'C10': 'thorough'}, stubs=_st, est=700, mem='L',
  bounds='v5.0 CONNECT without properties (keep-alive all u16, clean flag symbolic) received by a disconnected server that kept the receive timeout of an earlier connection', symbolic='old keep-alive, keep-alive, clean',
  encodes=['process_recv_v5_0_connect', 'v5_0::Connect::parse', 'initialize', 'refresh_pingreq_recv'])
S('st_restore_packets_v5', {'C16': 'quick'}, stubs=_st, est=600, mem='L',
  bounds='restore_packets([QoS1 PUBLISH(i), QoS2 PUBLISH(j), PUBREL(k)]) (v5.0 packets) into a fresh v5.0 client, ids symbolic', symbolic='i, j, k', encodes=['restore_packets'])
S('st_send_stored_limit_v5', {'C14': 'quick', 'C06': 'thorough', 'C08': 'thorough'}, stubs=_st, est=600, mem='L',
  bounds='send_stored() with stored [v5.0 QoS1 PUBLISH (9 bytes), PUBREL (4 bytes)] under a peer limit L over all u32 >= 1', symbolic='L, i, k', encodes=['send_stored', 'GenericStore::for_each'])
for _n, _d in (('pubrel', 'PUBREL (4 bytes)'), ('publish', 'QoS1 PUBLISH (9 bytes)')):
    S('st_send_stored_limit_v5_' + _n, {}, stubs=(_st if _n == 'publish' else []), est=600, mem='L',
      bounds='send_stored() with one stored v5.0 %s under a peer limit L over all u32 >= 1, id over all u16 >= 1' % _d, symbolic='L, k', encodes=['send_stored', 'GenericStore::for_each'])
S('st_recv_pubrec_v5_reason_codes', {}, est=500, mem='M',
  bounds='v5.0 PUBREC (every defined reason code) for the one QoS2 exchange of a connected client that waits for PUBREC; id over all u16 >= 1, Receive Maximum M and in-flight count (1..=M) over all u16, automatic responses on/off',
  symbolic='j, M, count, reason code, auto response', encodes=['process_recv_v5_0_pubrec', 'process_send_v5_0_pubrel'])
for _n in ('q1', 'q2'):
    S('st_erase_stored_one_v5_' + _n, {}, stubs=_st, est=400, mem='L',
      bounds='erase_stored_publish(i) on a connected v5.0 client whose store holds one %s PUBLISH(i); i over all u16 >= 1, Receive Maximum M and the in-flight count (1..=M) over all u16' % _n.upper().replace('Q', 'QoS'), symbolic='i, M, count',
      encodes=['erase_stored_publish', 'GenericStore::erase_publish'])
for _k, _t in (('puback_props127', 'thorough'), ('puback_props128', 'opt'), ('pubrec_props128', 'opt'), ('pubrel_props128', 'opt'), ('pubcomp_props128', 'opt')):
    K('c02_v5_' + _k, {'C02': _t, 'C03': 'thorough'}, est=600, timeout=3600, stubs=_st, mem='XL',
      bounds='v5.0 %s with reason code and one Reason String so that the property section is %s bytes (Property Length field one/two bytes); id, first and last string byte symbolic' % (_k.split('_')[0].upper(), _k[-3:]),
      symbolic='id, first byte, last byte', encodes=['v5_0 ack builder/size/to_continuous_buffer/parse', 'Properties::{parse,size,to_continuous_buffer}', 'MqttString'])
for _k in ('puback', 'pubrec', 'pubrel', 'pubcomp'):
    K('c02_v5_%s_parse_props128' % _k, {'C02': 'thorough', 'C04': 'thorough'}, est=600, timeout=3600, stubs=['core::str::from_utf8 -> utf8_trusting (accepts; string bytes are concrete ASCII)'], mem='L',
      bounds='v5.0 %s body of 133 bytes: id (all u16 >= 1), reason code 0, Property Length 80 01, one Reason String of 125 bytes (last byte symbolic ASCII): parse, size(), re-serialisation' % _k.upper(),
      symbolic='id, last string byte', encodes=['v5_0 ack parse/size/to_continuous_buffer', 'Properties::{parse,size}', 'MqttString::decode'])
S('st_send_pubrel_states_v311', {'C15': 'quick', 'C06': 'quick', 'C11': 'thorough'}, est=400,
  bounds='PUBREL(k) sent by a v3.1.1 client in every status x need_store, keep-alive symbolic', symbolic='status, need_store, keep-alive, k', encodes=['process_send_v3_1_1_pubrel', 'send_post_process'])
S('st_send_connack_v5_resume_count', {'C12': 'quick', 'C06': 'thorough', 'C16': 'thorough'}, stubs=_st, est=900, mem='L', timeout=3600,
  bounds='v5.0 server sends CONNACK(success, session present) with one stored QoS1 PUBLISH, Receive Maximum M (all u16 >= 1), then receives its PUBACK', symbolic='M, i',
  encodes=['process_send_v5_0_connack', 'send_stored', 'process_recv_v5_0_puback', 'get_receive_maximum_vacancy_for_send'])
S('st_recv_publish_v5_recv_max', {'C12': 'quick', 'C19': 'thorough'}, stubs=_st, est=900, mem='L', timeout=3600,
  bounds='v5.0 QoS1/2 PUBLISH received by a client that announced Receive Maximum 2 with 1 or 2 publishes outstanding', symbolic='a, b, r, QoS, full?',
  encodes=['process_recv_v5_0_publish', 'handle_v5_0_error'])

for _v in ('v311', 'v5'):
    S('st_recv_connack_while_connected_' + _v, {}, stubs=_st, est=600, mem='L',
      bounds='CONNACK (accepted, session present symbolic) received by a *connected* persistent %s client with one stored QoS1 PUBLISH in flight' % _v, symbolic='i, session present, timer configuration',
      encodes=['process_recv_%s_connack' % ('v3_1_1' if _v == 'v311' else 'v5_0')])

K('c02_v311_connect', {}, est=300, stubs=_st, mem='L',
  bounds='v3.1.1 CONNECT through the builder: 1-byte client id, keep-alive (all u16), clean flag; without and with 1-byte user name and password', symbolic='4 bytes, keep-alive, clean',
  encodes=['v3_1_1::Connect::{builder,build,size,to_buffers,to_continuous_buffer,parse}'])
K('c02_v311_subscribe_family', {}, est=300, stubs=_st, mem='L',
  bounds='v3.1.1 SUBSCRIBE / SUBACK / UNSUBSCRIBE through the builders with one 1-byte entry, id all u16, QoS / return code symbolic', symbolic='2 bytes, id',
  encodes=['v3_1_1::{GenericSubscribe,GenericSuback,GenericUnsubscribe}', 'SubEntry', 'SubOpts'])
for _k in ('suback_v311', 'unsuback_v311', 'suback_v5', 'unsuback_v5'):
    S('st_recv_' + _k, {}, stubs=_st, est=600, mem='L',
      bounds='%s (id r all u16) received by a connected client with one pending id u (still in use, or already released by the application) and one unrelated id' % _k.upper(), symbolic='u, w, r, still-used flag',
      encodes=['process_recv_*_%s' % _k.split('_')[0]])
for _n, _d in (('v311_q1', 'v3.1.1 [QoS1 PUBLISH(i), PUBREL(k)]'), ('v311_q2', 'v3.1.1 [QoS2 PUBLISH(i), PUBREL(k)]'), ('v5_q1', 'v5.0 [QoS1 PUBLISH(i), PUBREL(k)]'), ('v5_q2', 'v5.0 [QoS2 PUBLISH(i), PUBREL(k)]')):
    S('st_restore_pair_' + _n, {}, stubs=_st, est=600, mem='L',
      bounds='restore_packets(%s) into a fresh client, ids symbolic; order, wait sets, in-use ids, re-registration refused' % _d, symbolic='i, k', encodes=['restore_packets', 'register_packet_id'])
for _n, _d in (('v311_publish_q1', 'v3.1.1 QoS1 PUBLISH'), ('v311_publish_q2', 'v3.1.1 QoS2 PUBLISH'), ('v311_pubrel', 'v3.1.1 PUBREL'), ('v5_pubrel', 'v5.0 PUBREL'), ('v5_publish_q2', 'v5.0 QoS2 PUBLISH')):
    S('st_restore_one_' + _n, {}, stubs=(_st if 'publish' in _n else []), est=250, mem='M',
      bounds='restore_packets([%s(i)]) into a fresh client, i over all u16 >= 1; store content, in-use id, exactly the right wait set, re-registration refused' % _d, symbolic='i', encodes=['restore_packets', 'register_packet_id'])
S('st_send_publish_v5_manual_alias_rebind1', {}, stubs=_st, est=900, mem='XL', timeout=3600,
  bounds='v5.0 QoS0 PUBLISH (topic in {a,b}) with Topic Alias 1..=3 sent by a connected client whose table (max 3) holds one earlier binding; sender table compared with a receiver model', symbolic='k1, a1, kx, ax',
  encodes=['process_send_v5_0_publish', 'TopicAliasSend::{insert_or_update,peek}'])
for _n, _d in (('new', 'a new identifier r != h (all u16)'), ('dup', 'the already handled identifier h')):
    S('st_recv_publish_q2_v311_' + _n, {}, stubs=_st, est=450, mem='M',
      bounds='QoS2 PUBLISH with %s received by a connected v3.1.1 client (automatic responses off), DUP and payload byte symbolic' % _d, symbolic='h, r, dup, payload byte',
      encodes=['process_recv_v3_1_1_publish', 'v3_1_1::GenericPublish::parse', 'process_send_v3_1_1_pubrec'])
H('c12_vacancy_kernel', 'core', {}, est=20, timeout=600, mem='S', uws=STEP_UWS,
  bounds='get_receive_maximum_vacancy_for_send for all Option<u16> maxima and all u16 counters', symbolic='max, count', encodes=['get_receive_maximum_vacancy_for_send'])
# v5.0 codec harnesses follow the same scheme as the steps (global unwind 2 + whitelist)
CODEC_UWS = STEP_UWS[:-1] + [(r'verif_harness', 24), STEP_UWS[-1]]
LONG_UWS = STEP_UWS[:-1] + [(r'verif_harness', 140), (r'mqtt_string|mqtt_binary|arc_payload', 140), (r'memcmp|compare_bytes|SlicePartialEq|5slice3cmp', 140), STEP_UWS[-1]]
for _h in HARNESSES:
    if _h['file'] == 'codec' and (_h['name'].startswith(('c02_v5_', 'c04_v5_')) or _h['name'] in ('c04_subscribe_family_prefixes', 'c04_suback_family_prefixes', 'c03_numeric_tables', 'c02_v311_connect', 'c02_v311_subscribe_family')):
        _h['uws'] = LONG_UWS if 'props12' in _h['name'] else CODEC_UWS
for _n in ('c02_string_new_n3',):
    for _h in HARNESSES:
        if _h['name'] == _n:
            _h['mem'] = 'L'

# measured peak memory -> class (S 3 GB, M 8, L 16, XL 28); steps not listed default to L until measured
_MEM = {
    'S': ['st_send_pingreq_v311_client', 'st_send_pingreq_v5_client', 'st_send_disconnect_v311_client', 'st_send_disconnect_v5_server', 'st_timer_fired_v311_client',
          'st_timer_fired_v5_client_pingresp', 'st_timer_fired_server_pingreq_recv', 'st_recv_pingresp_client', 'st_recv_connack_while_connected_v311', 'c17_can_receive_table',
          'c14_total_size_kernel', 'st_handled_export_restore'],
    'M': ['st_recv_connect_v5_server', 'st_recv_connect_v311_server', 'st_send_puback_v5_limit', 'st_send_pubrec_v5_handled', 'st_reuse_client_v311_clean_connect',
          'st_send_publish_v5_automap_limit', 'st_recv_publish_q2_v311', 'st_send_publish_v311_q1_persistent',
          'st_restore_one_v311_publish_q1', 'st_restore_one_v311_publish_q2', 'st_restore_one_v311_pubrel', 'st_restore_one_v5_pubrel', 'st_restore_one_v5_publish_q2', 'st_recv_connect_v5_server', 'st_erase_stored_one_v5_q1', 'st_erase_stored_one_v5_q2'],
    'L': ['st_notify_closed_any', 'st_id_calls_total', 'st_recv_puback_v5_flow', 'st_send_publish_v311_never_dropped', 'st_recv_puback_v311_persistent',
          'st_send_publish_v5_limit', 'st_recv_connect_v5_server_tam'],
    'XL': ['st_send_publish_v5_manual_alias_rebind1', 'st_send_publish_v5_flow', 'st_send_publish_v5_limit', 'st_send_stored_limit_v5', 'st_recv_pubcomp_flow', 'st_recv_pubrec_v5_flow', 'st_dispatch_client_v311', 'st_dispatch_server_v311', 'st_dispatch_client_v5', 'st_dispatch_server_v5', 'st_undetermined_first_packet', 'st_recv_publish_v5_alias',
           'st_recv_publish_v5_recv_max', 'st_send_connack_v5_resume_count', 'st_send_publish_v5_alias_resolve', 'st_send_publish_v5_manual_alias_bind'],
}
_known = set(x for v in _MEM.values() for x in v)
for _h in HARNESSES:
    if _h['file'] in ('core', 'c11') and _h['name'] not in _known and _h['name'].startswith(('st_', 'c11_cell')):
        _h['mem'] = 'L'
for _c, _ns in _MEM.items():
    for _n in _ns:
        for _h in HARNESSES:
            if _h['name'] == _n:
                _h['mem'] = _c

# =============================================================================== final tier table
# (overrides the per-harness `props` given above: one place to see what each property's check runs)
_c18_all = [h['name'] for h in HARNESSES if h['name'].startswith('c18_')]
_codec_q = ['c02_vbi_all_u32', 'c02_string_new_n3', 'c02_v311_puback', 'c02_v311_pubrel', 'c02_v311_unsuback', 'c02_v311_connack', 'c02_fixed_two_byte_packets', 'c02_v311_publish_q1',
            'c02_v5_connack_disconnect_auth']
QUICK = {
    # every quick command must finish well inside 900 s on a machine that is not faster than this one:
    # only harnesses measured at <= 560 s (idle machine) are in the quick tier
    'C02': _codec_q,
    'C03': ['c03_numeric_tables', 'c18_values_fixed_width'] + _codec_q,
    'C04': ['c04_vbi_decode_all', 'c04_string_decode_n6', 'c04_binary_decode_n6', 'c04_v311_puback_n4', 'c04_v311_unsuback_n4', 'c04_v311_connack_n3', 'c02_fixed_two_byte_packets',
            'c04_v311_publish_struct', 'c04_v5_suback_nonminimal_proplen', 'c04_v311_connect_prefixes', 'c18_values_subscription_identifier'],
    'C05': ['c09_f3_overlong_rl_cut5', 'c09_f3_overlong_rl_cut2', 'c04_v311_connect_prefixes', 'st_recv_connect_v311_server', 'st_recv_connect_v5_server', 'st_recv_framing_error_v5', 'st_id_calls_total'],
    'C06': ['st_send_publish_v311_q1_persistent', 'st_recv_puback_v311_persistent'],
    'C07': ['st_recv_publish_q2_v311_new', 'st_recv_publish_q2_v311_dup', 'st_send_pubrec_v5_handled', 'st_handled_export_restore'],
    'C08': ['c08_pidman_step_u16', 'st_id_calls_total', 'st_notify_closed_any', 'st_recv_puback_v311_persistent'],
    'C09': ['c09_f1_header_value', 'c09_f3_overlong_rl_cut1', 'c09_f3_overlong_rl_cut2', 'c09_f3_overlong_rl_cut3', 'c09_f3_overlong_rl_cut4', 'c09_f3_overlong_rl_cut5',
            'c09_f2_s1_three_frames', 'c09_f2_s3_four_byte_len', 'st_recv_two_packets_one_buffer'],
    'C10': ['st_notify_closed_any', 'st_recv_connect_v311_server', 'st_recv_connect_v5_server'],
    'C11': ['c11_const_table', 'c11_cell_any_v311_connect', 'c11_cell_server_v5_pubrec'],
    'C12': ['c12_vacancy_kernel', 'st_send_pubrec_v5_handled', 'st_erase_stored_one_v5_q1', 'st_erase_stored_one_v5_q2'],
    'C13': ['c13_alias_send_clear', 'c13_alias_recv_hist2', 'st_send_publish_v5_automap_limit', 'st_notify_closed_any'],
    'C14': ['c14_total_size_kernel', 'c09_f1_header_value', 'st_send_puback_v5_limit', 'st_send_publish_v5_automap_limit', 'st_recv_packet_too_large'],
    'C15': ['st_send_pingreq_v5_client', 'st_send_disconnect_v311_client', 'st_timer_fired_server_pingreq_recv', 'st_recv_connect_v311_server', 'st_recv_pingresp_client', 'st_notify_closed_any'],
    'C16': ['st_handled_export_restore', 'st_restore_one_v311_publish_q1', 'st_restore_one_v311_publish_q2', 'st_restore_one_v311_pubrel', 'st_restore_one_v5_pubrel', 'st_restore_one_v5_publish_q2'],
    'C17': ['c17_can_receive_table', 'st_recv_connack_while_connected_v311'],
    'C18': _c18_all,
    'C19': ['st_send_disconnect_v311_client', 'st_send_disconnect_v5_server', 'st_timer_fired_v311_client', 'st_recv_framing_error_v5', 'st_recv_packet_too_large'],
    'C20': ['c20_step_u16_n3', 'c20_base_new_u16', 'c20_base_new_u32'],
}
# C11 cells decided on the final tree (9-15 min and 3.4-10.4 GB each); the other cells come from the same generator but were
# not run on the final tree for lack of time (listed under EXPERIMENTAL)
C11_DECIDED = ['any_v311_connect', 'client_v311_connect', 'server_v311_connack', 'client_v311_puback', 'client_v311_pubrel', 'server_v311_pubcomp', 'client_v311_subscribe',
               'server_v311_suback', 'client_v311_disconnect', 'server_v5_connack', 'server_v5_puback', 'server_v5_pubrec', 'client_v5_pubrel', 'client_v5_subscribe',
               'server_v5_unsuback', 'client_v5_pingreq', 'server_v5_pingresp', 'client_v5_disconnect', 'server_v5_disconnect', 'client_v5_auth']
THOROUGH_EXTRA = {
    'C02': [h['name'] for h in HARNESSES if h['name'].startswith('c02_')] + ['c04_vbi_decode_all', 'c18_values_fixed_width'],
    'C03': [h['name'] for h in HARNESSES if h['name'].startswith(('c02_', 'c03_'))] + ['c04_v311_connect_prefixes'],
    'C04': [h['name'] for h in HARNESSES if h['name'].startswith('c04_')] + ['st_recv_publish_q2_v311'],
    'C05': ['st_recv_publish_q2_v311', 'st_recv_connect_v5_server', 'c09_f3_overlong_rl_cut1', 'c09_f3_overlong_rl_cut3', 'c09_f3_overlong_rl_cut4', 'st_recv_connect_v5_server_tam', 'st_dispatch_client_v311', 'st_dispatch_server_v311',
            'st_recv_framing_error_v311', 'st_recv_puback_v311_persistent'],
    'C06': ['st_recv_pubrec_v5_reason_codes', 'st_send_pubrel_states_v311', 'st_send_publish_v311_never_dropped', 'st_recv_puback_v5_flow', 'st_recv_pubcomp_flow', 'st_notify_closed_any', 'st_recv_pubrec_v5_flow'],
    'C07': ['st_recv_publish_q2_v311', 'st_reuse_client_v311_clean_connect', 'st_recv_pubrel_flow', 'st_notify_closed_any'],
    'C08': ['st_recv_pubrec_v5_reason_codes', 'c20_step_u16_n3', 'st_recv_puback_v5_flow', 'st_recv_pubcomp_flow', 'st_send_publish_v311_never_dropped', 'st_recv_unsuback_v5', 'st_recv_suback_v311', 'st_recv_suback_v5',
            'st_recv_unsuback_v311', 'st_send_publish_v5_limit', 'st_recv_pubrec_v5_flow'],
    'C09': ['c09_f2_s2_nonminimal', 'c09_f2_s5_partial_tail', 'c09_f2_s6_three_byte_len', 'st_recv_framing_error_v311', 'st_recv_framing_error_v5'],
    'C10': ['st_reuse_client_v311_clean_connect', 'st_recv_connect_v5_server'],
    'C11': ['c11_const_table'] + ['c11_cell_' + _c for _c in C11_DECIDED] + ['st_send_publish_v311_never_dropped', 'st_send_pubrel_states_v311'],
    'C12': ['st_recv_pubrec_v5_reason_codes', 'st_recv_puback_v5_flow', 'st_recv_pubcomp_flow', 'st_recv_pubrec_v5_flow'],
    'C13': ['st_recv_connect_v5_server_tam'],
    'C14': ['st_send_publish_v5_limit'],
    'C15': ['st_send_pubrel_states_v311', 'st_send_pingreq_v311_client', 'st_send_disconnect_v5_server', 'st_timer_fired_v311_client', 'st_timer_fired_v5_client_pingresp', 'st_recv_connect_v5_server'],
    'C16': [],
    'C17': ['st_dispatch_client_v311', 'st_dispatch_server_v311', 'st_recv_connect_v311_server', 'st_recv_connect_v5_server', 'st_recv_connack_while_connected_v5'],
    'C18': [],
    'C19': ['st_timer_fired_v5_client_pingresp', 'st_timer_fired_server_pingreq_recv', 'st_recv_framing_error_v311', 'st_recv_puback_v311_persistent', 'st_send_pingreq_v311_client', 'st_recv_puback_v5_flow'],
    'C20': ['c20_step_u32_n3', 'c20_step_u16_n4', 'c20_step_u32_n4', 'c20_hist_u8_ops3'],
}
_by = {h['name']: h for h in HARNESSES}
for h in HARNESSES:
    h['props'] = {}
for _p, _names in QUICK.items():
    for _n in _names:
        _by[_n]['props'][_p] = 'quick'
for _p, _names in THOROUGH_EXTRA.items():
    for _n in _names:
        _by[_n]['props'].setdefault(_p, 'thorough')
# seed-rotated optional shapes of the quick tier




# =============================================================================== harnesses outside every registered command
# Written and compiled on every run, but not decided within the memory / time limits of this sandbox (measured);
# they are *outside the claim* (DESIGN 10.5) and can be run with `bin/check DEV --only <name>`.
EXPERIMENTAL = {
    'st_send_publish_v5_flow': '> 28 GB after 30 min (class XL)',
    'st_send_publish_v5_manual_alias_rebind1': '> 28 GB after 17 min (class XL)',
    'st_recv_connack_v311_resume': 'time-out 50 min at 19 GB (class XL)',
    'st_erase_stored_publish_v5': '> 28 GB after 31 min (class XL)',
    'st_send_stored_limit_v5': 'time-out 50 min at 20 GB (class XL)', 'st_send_stored_limit_v5_pubrel': '> 12 GB after 18 min (one stored packet)', 'st_send_stored_limit_v5_publish': 'like the PUBREL form',
    'st_restore_pair_v311_q1': '> 28 GB', 'st_restore_pair_v311_q2': '> 28 GB', 'st_restore_pair_v5_q1': '> 28 GB', 'st_restore_pair_v5_q2': '> 28 GB (superseded by st_restore_one_*)',
    'st_restore_packets_v311': '> 8 GB (three packets; the two-packet forms exceed 28 GB)', 'st_restore_packets_v5': 'like v3.1.1', 'st_restore_packets_duplicate_id': '> 8 GB',
    'c11_cell_client_v5_connect': '> 12 GB after 30 min',
    'c02_v5_puback': '> 8 GB / > 20 min', 'c02_v5_pubrec': '> 8 GB', 'c02_v5_pubrel': '> 8 GB', 'c02_v5_pubcomp': '> 8 GB',
    'c02_v5_publish_q0': 'time-out 20 min', 'c02_v5_publish_q1': 'time-out 20 min, 8.6 GB',
    'c02_v5_puback_props127': 'not measured (XL)', 'c02_v5_puback_props128': 'not measured (XL)', 'c02_v5_pubrec_props128': 'no verdict after 52 min in the SAT solver at 7.3 GB',
    'c02_v5_pubrel_props128': 'not measured (XL)', 'c02_v5_pubcomp_props128': 'not measured (XL)',
    'c02_v5_puback_parse_props128': 'like pubrec', 'c02_v5_pubrec_parse_props128': '> 12 GB after 640 s even with UTF-8 validation stubbed out (symbolic cursor after the Property Length: every byte read is a 133-way case split)',
    'c02_v5_pubrel_parse_props128': 'like pubrec', 'c02_v5_pubcomp_parse_props128': 'like pubrec',
    'c04_v5_puback_n3': 'time-out 20 min', 'c04_v5_pubrec_n3': 'time-out 20 min', 'c04_v5_pubrel_n3': 'time-out 20 min', 'c04_v5_pubcomp_n3': 'time-out 20 min',
    'c04_v5_publish_struct': 'time-out 20 min', 'c04_v5_connect_prefixes': 'time-out 20 min', 'c04_subscribe_family_prefixes': 'time-out 20 min, 12.5 GB',
    'c04_suback_family_prefixes': 'time-out 20 min', 'c02_v311_connect': '> 12 GB', 'c02_v311_subscribe_family': 'time-out 20 min / 12 GB',
    'c13_alias_send_hist2': '> 12 GB (String-keyed alias maps)', 'c09_f2_s4_error_then_frame': 'time-out 40 min (superseded by c09_f3_*)',
    'c09_f1_n2': '> 16 GB (symbolic allocation sizes)', 'c09_f1_n3': '> 16 GB', 'c09_f1_n4': 'not attempted',
    'st_recv_publish_v5_alias': '> 23 GB', 'st_recv_publish_v5_recv_max': '> 16 GB / 38 min', 'st_send_connack_v5_resume_count': '> 16 GB / 35 min',
    'st_send_publish_v5_alias_resolve': '> 23 GB', 'st_send_publish_v5_manual_alias_bind': '> 23 GB', 'st_undetermined_first_packet': '> 16 GB',
    'st_dispatch_client_v5': '> 16 GB', 'st_dispatch_server_v5': '> 16 GB', 'st_send_publish_v5_never_dropped': '> 16 GB',
}
for _h in HARNESSES:
    if _h['name'].startswith('c11_cell_') and _h['name'][9:] not in C11_DECIDED and _h['name'] not in EXPERIMENTAL:
        EXPERIMENTAL[_h['name']] = 'not run on the final tree (time); same generator as the decided cells'
for _h in HARNESSES:
    if _h['name'] in EXPERIMENTAL:
        _h['props'] = {}
