"""Runner: schedules Kani/CBMC harnesses over /repo's working tree, classifies the solver's
verdicts, replays counterexamples natively, writes evidence."""
import os, re, sys, json, time, glob, shutil, signal, tempfile, subprocess, threading, argparse, hashlib

ROOT = os.path.realpath(os.path.join(os.path.dirname(os.path.abspath(__file__)), '..'))
REPO = os.environ.get('VERIF_REPO', '/repo')
HARNESS_DIR = os.path.join(ROOT, 'harness')
ACTIVE = {'hdir': HARNESS_DIR}
CACHE = os.environ.get('VERIF_CACHE', os.path.join(ROOT, '.cache'))
TEMPLATE = os.path.join(CACHE, 'kani-target')
MEM_BUDGET_GB = float(os.environ.get('VERIF_MEM_GB', '54'))
MAX_PAR = int(os.environ.get('VERIF_JOBS', '14'))
MEM_CLASS = {'S': 3.0, 'M': 8.0, 'L': 12.0, 'XL': 28.0}
KANI_FLAGS = ['-Z', 'unstable-options', '-Z', 'stubbing', '--no-memory-safety-checks',
              '--no-overflow-checks', '--no-assertion-reach-checks']
FEATURES_VERIFY = 'verif-hooks,verif-models'
FEATURES_REPLAY = 'verif-hooks'

MODPATH = {
    'lib': 'verif_harness',
    'codec': 'verif_harness::codec',
    'c11': 'mqtt::connection::core::verif_harness::c11',
    'core': 'mqtt::connection::core::verif_harness',
    'packet_builder': 'mqtt::connection::packet_builder::verif_harness',
    'store': 'mqtt::connection::store::verif_harness',
    'packet_id_manager': 'mqtt::connection::packet_id_manager::verif_harness',
    'value_allocator': 'mqtt::common::value_allocator::verif_harness',
    'topic_alias_send': 'mqtt::packet::topic_alias_send::verif_harness',
    'topic_alias_recv': 'mqtt::packet::topic_alias_recv::verif_harness',
    'property': 'mqtt::packet::property::verif_harness',
}
for _k in ['auth', 'connack', 'connect', 'disconnect', 'puback', 'pubcomp', 'publish', 'pubrec',
           'pubrel', 'suback', 'subscribe', 'unsuback', 'unsubscribe']:
    MODPATH['v5_' + _k] = 'mqtt::packet::v5_0::%s::verif_harness' % _k


def log(*a):
    print(*a, flush=True)


def env_for(harness_dir):
    e = dict(os.environ)
    e['VERIF_HARNESS_DIR'] = harness_dir
    e['CARGO_NET_OFFLINE'] = 'true'
    e.pop('RUSTFLAGS', None)
    return e


# ----------------------------------------------------------------------------- process helpers
def rss_of_group(pgid):
    total = 0
    try:
        for pid in os.listdir('/proc'):
            if not pid.isdigit():
                continue
            try:
                with open('/proc/%s/stat' % pid) as f:
                    st = f.read()
                rp = st.rfind(')')
                fields = st[rp + 2:].split()
                if int(fields[2]) != pgid:
                    continue
                total += int(fields[21]) * 4096
            except (OSError, ValueError, IndexError):
                continue
    except OSError:
        pass
    return total


def run_limited(cmd, cwd, env, logpath, timeout_s, mem_gb):
    """Run cmd in its own process group; kill the group on timeout or when its RSS exceeds mem_gb.
    Returns (status, wall_s, peak_rss_gb) with status in {'exit:<n>', 'timeout', 'oom'}."""
    t0 = time.time()
    with open(logpath, 'wb') as lf:
        p = subprocess.Popen(cmd, cwd=cwd, env=env, stdout=lf, stderr=subprocess.STDOUT, start_new_session=True)
        peak = 0
        status = None
        while True:
            try:
                p.wait(timeout=2.0)
                break
            except subprocess.TimeoutExpired:
                pass
            r = rss_of_group(p.pid)
            peak = max(peak, r)
            if r > mem_gb * (1 << 30):
                status = 'oom'
            elif time.time() - t0 > timeout_s:
                status = 'timeout'
            if status:
                try:
                    os.killpg(p.pid, signal.SIGKILL)
                except OSError:
                    pass
                p.wait()
                break
    if status is None:
        status = 'exit:%d' % p.returncode
    return status, time.time() - t0, peak / float(1 << 30)


# ----------------------------------------------------------------------------- kani output parsing
CHECK_RE = re.compile(r'^Check (\d+): (.+)\n\t - Status: (\S+)\n\t - Description: "(.*)"\n\t - Location: (.*)$', re.M)


def parse_kani_log(text):
    """Split a Kani log into per-harness records."""
    out = {}
    parts = re.split(r'^Checking harness (\S+?)\.\.\.$', text, flags=re.M)
    # parts = [pre, name1, body1, name2, body2, ...]
    for i in range(1, len(parts), 2):
        name, body = parts[i], parts[i + 1]
        rec = {'checks': [], 'verdict': None, 'time_s': None, 'symex_s': 0.0, 'solver_s': 0.0,
               'vars': 0, 'clauses': 0, 'vccs': 0, 'vccs_remaining': 0, 'steps': 0, 'error': None}
        for m in CHECK_RE.finditer(body):
            rec['checks'].append({'id': m.group(2), 'status': m.group(3), 'desc': m.group(4), 'loc': m.group(5)})
        m = re.search(r'^VERIFICATION:- (\w+)', body, re.M)
        if m:
            rec['verdict'] = m.group(1)
        m = re.search(r'^Verification Time: ([\d.]+)s', body, re.M)
        if m:
            rec['time_s'] = float(m.group(1))
        for m in re.finditer(r'^Runtime Symex: ([\d.e+-]+)s', body, re.M):
            rec['symex_s'] += float(m.group(1))
        for m in re.finditer(r'^Runtime Solver: ([\d.e+-]+)s', body, re.M):
            rec['solver_s'] += float(m.group(1))
        for m in re.finditer(r'^(\d+) variables, (\d+) clauses', body, re.M):
            rec['vars'] = max(rec['vars'], int(m.group(1)))
            rec['clauses'] = max(rec['clauses'], int(m.group(2)))
        m = re.search(r'^Generated (\d+) VCC\(s\), (\d+) remaining after simplification', body, re.M)
        if m:
            rec['vccs'], rec['vccs_remaining'] = int(m.group(1)), int(m.group(2))
        m = re.search(r'^size of program expression: (\d+) steps', body, re.M)
        if m:
            rec['steps'] = int(m.group(1))
        rec['sat_calls'] = len(re.findall(r'^SAT checker: instance is', body, re.M))
        if re.search(r'out of memory|Status: ERROR|std::bad_alloc|CBMC failed|terminated by signal|panicked at', body):
            rec['error'] = 'solver/driver error'
        m = re.search(r'^ - Stub: (.*)$', body, re.M)
        out[name] = rec
    return out


TAG_RE = re.compile(r'\[(C\d\d(?:,C\d\d)*)\]')


def tags_of(desc):
    m = TAG_RE.search(desc)
    return m.group(1).split(',') if m else []


def is_unwind_check(c):
    return 'unwinding assertion' in c['desc'] or '.unwind.' in c['id']


# ----------------------------------------------------------------------------- target dirs
class DirPool:
    def __init__(self, scratch):
        self.scratch = scratch
        self.free = []
        self.n = 0
        self.lock = threading.Lock()

    def get(self):
        with self.lock:
            if self.free:
                return self.free.pop()
            self.n += 1
            d = os.path.join(self.scratch, 'tgt%d' % self.n)
        if os.path.isdir(TEMPLATE):
            subprocess.run(['cp', '-a', '--reflink=auto', TEMPLATE, d], check=True)
            # force a rebuild of /repo's own crate in the copy (its Kani metadata holds absolute paths of the template)
            for fp in glob.glob(os.path.join(d, 'kani', '*', 'debug', '.fingerprint', 'mqtt-protocol-core-*')) + \
                    glob.glob(os.path.join(d, 'kani', 'debug', '.fingerprint', 'mqtt-protocol-core-*')):
                shutil.rmtree(fp, ignore_errors=True)
        else:
            os.makedirs(d)
        return d

    def put(self, d):
        with self.lock:
            self.free.append(d)


def build_template(force=False):
    """Compile the dependency graph once under Kani (not /repo's own code, which every harness run recompiles)."""
    if os.path.isdir(TEMPLATE) and not force:
        return
    os.makedirs(CACHE, exist_ok=True)
    tmp = TEMPLATE + '.tmp'
    shutil.rmtree(tmp, ignore_errors=True)
    cmd = ['cargo', 'kani', '--target-dir', tmp, '--features', FEATURES_VERIFY] + KANI_FLAGS + \
          ['--only-codegen', '--exact', '--harness', 'verif_harness::canary_pass']
    r = subprocess.run(cmd, cwd=REPO, env=env_for(HARNESS_DIR), stdout=subprocess.PIPE, stderr=subprocess.STDOUT)
    if r.returncode != 0:
        sys.stderr.write(r.stdout.decode(errors='replace')[-4000:])
        raise SystemExit(2)
    shutil.rmtree(TEMPLATE, ignore_errors=True)
    os.rename(tmp, TEMPLATE)


# ----------------------------------------------------------------------------- one job
def full_name(h):
    return MODPATH[h['file']] + '::' + h['name']


def find_goto(tdir, name):
    suffix = '%d%s.out' % (len(name), name)
    cands = [p for p in glob.glob(os.path.join(tdir, 'kani', '*', 'debug', 'build', '*', '*', 'out', '*.out')) if p.endswith(suffix)]
    if not cands:
        cands = [p for p in glob.glob(os.path.join(tdir, '**', '*.out'), recursive=True) if p.endswith(suffix)]
    cands.sort(key=os.path.getmtime)
    return cands[-1] if cands else None


def resolve_unwindset(h, tdir, harness_dir, logdir):
    """Turn the harness' (regex, bound) whitelist into CBMC loop ids, from the freshly built goto binary."""
    base = ['cargo', 'kani', '--target-dir', tdir, '--features', FEATURES_VERIFY] + KANI_FLAGS
    cmd = base + ['--only-codegen', '--exact', '--harness', full_name(h)]
    lp = os.path.join(logdir, h['name'] + '.codegen.log')
    st, _, _ = run_limited(cmd, REPO, env_for(harness_dir), lp, 1200, 12)
    if st != 'exit:0':
        return None, 'codegen failed (%s)' % st
    g = find_goto(tdir, h['name'])
    if not g:
        return None, 'goto binary not found'
    r = subprocess.run(['cbmc', '--show-loops', g], stdout=subprocess.PIPE, stderr=subprocess.DEVNULL)
    loops = re.findall(r'^Loop (\S+):', r.stdout.decode(errors='replace'), re.M)
    pairs = []
    unmatched = []
    for rx, bound in h['uws']:
        c = re.compile(rx)
        hit = [l for l in loops if c.search(l)]
        if not hit:
            unmatched.append(rx)
        for l in hit:
            pairs.append((l, bound))
    # later patterns override earlier ones for the same loop
    d = {}
    for l, b in pairs:
        d[l] = b
    # loops of CBMC's built-in C library are linked in after codegen and are not listed by --show-loops
    for builtin in ('memcmp.0',):
        for rx, bound in h['uws']:
            if re.search(rx, builtin):
                d[builtin] = bound
                if rx in unmatched:
                    unmatched.remove(rx)
    return d, ('unmatched: ' + ','.join(unmatched)) if unmatched else ''


def run_job(h, pool, harness_dir, logdir, extra=None):
    tdir = pool.get()
    try:
        res = {'harness': h['name'], 'file': h['file']}
        uws_arg = []
        if h.get('uws'):
            d, note = resolve_unwindset(h, tdir, harness_dir, logdir)
            if d is None:
                res.update(status='error', detail=note, wall_s=0, peak_gb=0, rec=None)
                return res
            res['unwindset_note'] = note
            res['unwindset_n'] = len(d)
            if d:
                uws_arg = ['--cbmc-args', '--unwindset', ','.join('%s:%d' % kv for kv in sorted(d.items()))]
        cmd = ['cargo', 'kani', '--target-dir', tdir, '--features', FEATURES_VERIFY] + KANI_FLAGS + \
              (extra or []) + ['--exact', '--harness', full_name(h)] + uws_arg
        lp = os.path.join(logdir, h['name'] + '.log')
        mem = MEM_CLASS[h.get('mem', 'S')]
        st, wall, peak = run_limited(cmd, REPO, env_for(harness_dir), lp, h.get('timeout', 900), mem)
        text = open(lp, errors='replace').read()
        recs = parse_kani_log(text)
        rec = recs.get(full_name(h))
        res.update(wall_s=round(wall, 1), peak_gb=round(peak, 2), rec=rec, log=lp, proc=st)
        if st in ('timeout', 'oom'):
            res.update(status='inconclusive', detail=st)
        elif rec is None or rec['verdict'] is None:
            res.update(status='error', detail='no verdict (%s): %s' % (st, text[-600:]))
        elif rec['error'] and not rec['checks']:
            res.update(status='inconclusive', detail=rec['error'])
        else:
            res.update(status='done', detail='')
        return res
    finally:
        pool.put(tdir)


def schedule(jobs, pool, harness_dir, logdir):
    """Run jobs in parallel under the memory budget. jobs: list of harness dicts."""
    pending = sorted(jobs, key=lambda h: (MEM_CLASS[h.get('mem', 'S')], h.get('est', 60)) if os.environ.get('VERIF_ORDER') == 'asc' else -h.get('est', 60))
    running = []  # (thread, h)
    results = []
    lock = threading.Lock()

    order = ['S', 'M', 'L', 'XL']

    def worker(h):
        r = run_job(h, pool, harness_dir, logdir)
        cls = h.get('mem', 'S')
        if r['status'] == 'inconclusive' and r.get('detail') == 'oom' and cls != 'XL' and not os.environ.get('VERIF_NO_ESCALATE'):
            # memory class exhausted: one more attempt in the next class (never reported as pass or violation)
            h2 = dict(h)
            h2['mem'] = order[order.index(cls) + 1]
            log('  [retry] %-44s %6.0fs %5.1fGB class %s exhausted -> %s' % (h['name'], r.get('wall_s', 0), r.get('peak_gb', 0), cls, h2['mem']))
            with lock:
                pending.append(h2)
            return
        r['mem_class'] = cls
        with lock:
            results.append(r)
        verdict = (r.get('rec') or {}).get('verdict') or ''
        nfail = sum(1 for c in (r.get('rec') or {}).get('checks', []) if c['status'] == 'FAILURE')
        log('  [%s] %-44s %6.0fs %5.1fGB %s %s%s %s' % (r['status'], h['name'], r.get('wall_s', 0), r.get('peak_gb', 0), cls, verdict, (' (%d failed checks)' % nfail) if nfail else '', r.get('detail', '')[:120]))

    while pending or running:
        running = [(t, h) for (t, h) in running if t.is_alive()]
        used = sum(MEM_CLASS[h.get('mem', 'S')] for _, h in running)
        started = False
        for h in list(pending):
            need = MEM_CLASS[h.get('mem', 'S')]
            if len(running) < MAX_PAR and (used + need <= MEM_BUDGET_GB or not running):
                pending.remove(h)
                t = threading.Thread(target=worker, args=(h,), daemon=True)
                t.start()
                running.append((t, h))
                used += need
                started = True
        if not started:
            time.sleep(1.0)
    return results



# ----------------------------------------------------------------------------- focus re-run
def _scan_macro_end(src, i):
    """src[i] is the '(' of `assert!(`; returns index just past the matching ')' (string / char literals skipped)."""
    depth = 0
    n = len(src)
    while i < n:
        ch = src[i]
        if ch == '"':
            i += 1
            while i < n and src[i] != '"':
                i += 2 if src[i] == '\\' else 1
        elif ch == "'" and i + 2 < n and (src[i + 2] == "'" or (src[i + 1] == '\\' and "'" in src[i + 2:i + 6])):
            i = src.index("'", i + 2)
        elif ch == '/' and src[i:i + 2] == '//':
            i = src.index('\n', i)
        elif ch in '([{':
            depth += 1
        elif ch in ')]}':
            depth -= 1
            if depth == 0:
                return i + 1
        i += 1
    return None


def strip_foreign_assertions(src, prop):
    """Remove every `assert!(cond, "[Cxx,...] msg");` whose tag list does not contain prop (a failing `assert!` ends
    the path like a panic, so obligations of prop behind a failing obligation of another property would stay undecided)."""
    out = []
    pos = 0
    removed = 0
    for m in re.finditer(r'\bassert!\(', src):
        if m.start() < pos:
            continue
        end = _scan_macro_end(src, m.end() - 1)
        if end is None:
            continue
        body = src[m.end():end - 1]
        lit = re.search(r',\s*"((?:[^"\\]|\\.)*)"\s*,?\s*$', body, re.S)
        if not lit:
            continue
        tg = tags_of(lit.group(1))
        if not tg or prop in tg:
            continue
        stop = end
        k = end
        while k < len(src) and src[k] in ' \t':
            k += 1
        if k < len(src) and src[k] == ';':
            stop = k + 1
        out.append(src[pos:m.start()])
        out.append('{ /* obligation of %s removed for the focus re-run */ }' % ','.join(tg))
        pos = stop
        removed += 1
    out.append(src[pos:])
    return ''.join(out), removed


def focus_snapshot(hsnap, prop, scratch):
    d = os.path.join(scratch, 'harness-focus-' + prop)
    if os.path.isdir(d):
        return d
    shutil.copytree(hsnap, d)
    for f in glob.glob(os.path.join(d, '*_h.rs')):
        t, n = strip_foreign_assertions(open(f).read(), prop)
        if n:
            with open(f, 'w') as fh:
                fh.write(t)
    return d


def in_harness_code(c):
    return bool(re.search(r'_h\.rs|verif_harness', c.get('loc', '')))

# ----------------------------------------------------------------------------- replay
def make_replay(h, failing_descs, scratch, pool, logdir, hdir=None):
    """Ask Kani for a concrete-playback unit test of the failing harness, run it natively against the
    real containers (features: verif-hooks only) in dev and release profile.
    Returns (reproduced: bool|None, replay_path, detail)."""
    hdir = hdir or ACTIVE['hdir']
    tdir = pool.get()
    try:
        cmd = ['cargo', 'kani', '--target-dir', tdir, '--features', FEATURES_VERIFY] + KANI_FLAGS + \
              ['-Z', 'concrete-playback', '--concrete-playback=print', '--exact', '--harness', full_name(h)]
        if h.get('uws'):
            d, _ = resolve_unwindset(h, tdir, hdir, logdir)
            if d:
                cmd += ['--cbmc-args', '--unwindset', ','.join('%s:%d' % kv for kv in sorted(d.items()))]
        lp = os.path.join(logdir, h['name'] + '.playback-gen.log')
        st, _, _ = run_limited(cmd, REPO, env_for(hdir), lp, h.get('timeout', 900) * 2, max(8, MEM_CLASS[h.get('mem', 'S')] * 2))
        text = open(lp, errors='replace').read()
    finally:
        pool.put(tdir)
    # Kani prints one unit test per failed check and per satisfied cover point: keep the failed checks only
    blocks = re.findall(r'```\n(.*?)```', text, re.S)
    # (Kani prints one test per distinct value vector: when the SAT model of a failed check also satisfies a cover
    # point, the only test for it is headed "Check for `cover`", so those come second instead of being dropped)
    tests = [b for b in blocks if '#[test]' in b and not re.search(r'/// Check for `cover`', b)] + \
            [b for b in blocks if '#[test]' in b and re.search(r'/// Check for `cover`', b)]
    if not tests:
        return None, None, 'no concrete playback test produced for a failed check (%s)' % st
    # de-duplicate identical value vectors, cap the number of tests
    seen, uniq = set(), []
    for b in tests:
        # one test per function name (= hash of the value vector) and per value vector
        fn = re.search(r'fn (kani_concrete_playback_\w+)', b)
        body = re.sub(r'fn kani_concrete_playback_\w+', 'fn T', b[b.find('#[test]'):])
        if (fn and fn.group(1) in seen) or body in seen:
            continue
        seen.add(body)
        if fn:
            seen.add(fn.group(1))
        uniq.append(b)
    test_src = '\n'.join(uniq[:8])
    return run_replay_source(h['file'], h['name'], test_src, failing_descs, scratch, logdir, hdir=hdir)


def run_replay_source(hfile, hname, test_src, failing_descs, scratch, logdir, store=True, hdir=None):
    # scratch copy of the working tree (so that /repo/target is not touched) and of the harness dir with the test appended
    wt = os.path.join(scratch, 'replay-wt-%s' % hname)
    hd = os.path.join(scratch, 'replay-h-%s' % hname)
    shutil.rmtree(wt, ignore_errors=True)
    shutil.rmtree(hd, ignore_errors=True)
    subprocess.run(['rsync', '-a', '--exclude', 'target', '--exclude', '.git', REPO + '/', wt + '/'], check=True)
    shutil.copytree(hdir or ACTIVE['hdir'], hd)
    with open(os.path.join(hd, hfile + '_h.rs'), 'a') as f:
        f.write('\n// ---- concrete playback test appended by bin/check ----\n' + test_src + '\n')
    tname = 'kani_concrete_playback_' + hname
    outcomes = {}
    for prof in ('dev', 'release'):
        cmd = ['cargo', 'kani', 'playback', '-Z', 'concrete-playback', '--lib', '--features', FEATURES_REPLAY, '--', tname]
        lp = os.path.join(logdir, '%s.playback-%s.log' % (hname, prof))
        e = env_for(hd)
        e['CARGO_TARGET_DIR'] = os.path.join(scratch, 'replay-target-' + hname + prof)
        if prof == 'release':
            # `cargo kani playback` has no --release; give the dev/test profile the release settings instead
            for pn in ('DEV', 'TEST'):
                e['CARGO_PROFILE_%s_OPT_LEVEL' % pn] = '3'
                e['CARGO_PROFILE_%s_DEBUG_ASSERTIONS' % pn] = 'false'
                e['CARGO_PROFILE_%s_OVERFLOW_CHECKS' % pn] = 'false'
        st, _, _ = run_limited(cmd, wt, e, lp, 1500, 12)
        t = open(lp, errors='replace').read()
        ran = re.search(r'test result: (\w+)\. (\d+) passed; (\d+) failed', t)
        if not ran or (int(ran.group(2)) + int(ran.group(3))) == 0:
            outcomes[prof] = ('error', t[-1500:])
            continue
        if int(ran.group(3)) > 0:
            pm = re.search(r'panicked at [^\n]*:\n([^\n]*)', t)
            outcomes[prof] = ('fails', pm.group(1) if pm else '')
        else:
            outcomes[prof] = ('passes', '')
    shutil.rmtree(wt, ignore_errors=True)
    for prof in ('dev', 'release'):
        shutil.rmtree(os.path.join(scratch, 'replay-target-' + hname + prof), ignore_errors=True)
    shutil.rmtree(hd, ignore_errors=True)
    path = None
    if store:
        rd = os.environ.get('VERIF_REPLAY_DIR', os.path.join(ROOT, 'replays'))
        os.makedirs(rd, exist_ok=True)
        path = os.path.join(rd, '%s.rs' % hname)
        with open(path, 'w') as f:
            f.write('// harness-file: %s\n// harness: %s\n// solver-failed-checks: %s\n// native outcomes: %s\n%s\n' % (
                hfile, hname, json.dumps(failing_descs), json.dumps({k: v[0] + ': ' + v[1][:200] for k, v in outcomes.items()}), test_src))
    # dev profile has overflow checks like the Kani model; a failure in either profile is a reproduction
    if any(v[0] == 'fails' for v in outcomes.values()):
        return True, path, json.dumps({k: v[0] + ': ' + v[1][:160] for k, v in outcomes.items()})
    if all(v[0] == 'passes' for v in outcomes.values()):
        return False, path, 'playback test passes natively in dev and release'
    return None, path, 'playback could not be run: ' + json.dumps({k: v[1][-300:] for k, v in outcomes.items()})


# ----------------------------------------------------------------------------- known findings
def load_known():
    p = os.path.join(ROOT, 'known_findings.json')
    if not os.path.exists(p):
        return {'findings': [], 'fixed': []}
    return json.load(open(p))


def match_known(known, prop, hname, desc):
    for k in known.get('findings', []):
        if k['property'] != prop:
            continue
        if not re.search(k['harness'], hname):
            continue
        if k['assertion'] in desc:
            return k
    return None


# ----------------------------------------------------------------------------- property check
def check_property(prop, tier, seed, only=None):
    import registry
    t0 = time.time()
    if prop == 'DEV':
        hs = [h for h in registry.HARNESSES if any(re.search(rx, h['name']) for rx in (only or ['.']))]
        only = None
    else:
        hs = registry.select(prop, tier, seed)
    if only:
        hs = [h for h in hs if h['name'] in only]
    canaries = registry.canaries()
    scratch = tempfile.mkdtemp(prefix='verif-%s-' % prop, dir=os.environ.get('VERIF_SCRATCH', '/tmp'))
    logdir = os.path.join(scratch, 'logs')
    os.makedirs(logdir)
    keep_logs = os.environ.get('VERIF_KEEP_LOGS')
    exit_code = 0
    try:
        build_template()
        pool = DirPool(scratch)
        # regenerate generated harness sources, then work on a private snapshot of the harness directory
        for g in ('gen_c18.py', 'gen_c11.py'):
            subprocess.run([sys.executable, os.path.join(ROOT, 'gen', g)], check=True)
        hsnap = os.path.join(scratch, 'harness')
        shutil.copytree(HARNESS_DIR, hsnap)
        ACTIVE['hdir'] = hsnap
        log('== %s tier=%s seed=%d: %d harnesses + %d canaries; repo=%s' % (prop, tier, seed, len(hs), len(canaries), REPO))
        results = schedule(canaries + hs, pool, hsnap, logdir)
        byname = {r['harness']: r for r in results}
        # --- canaries: the engine must be able to fail and to pass
        canary_ok = True
        for c in canaries:
            r = byname[c['name']]
            if r['status'] != 'done':
                canary_ok = False
                continue
            v = r['rec']['verdict']
            if c.get('expect_fail') and v != 'FAILED':
                canary_ok = False
            if not c.get('expect_fail') and v != 'SUCCESSFUL':
                canary_ok = False
        if not canary_ok:
            log('ERROR: canary harnesses did not behave (run is void)')
            exit_code = 2
        known = load_known()
        violations, known_hits, inconclusive = [], [], []
        obligations = discharged = 0
        covers = covers_hit = 0
        unwind_checks = 0
        samples = []
        agg = {'symex_s': 0.0, 'solver_s': 0.0, 'sat_calls': 0, 'vccs': 0, 'vccs_remaining': 0, 'max_vars': 0, 'max_clauses': 0, 'steps': 0}
        per_h = []
        to_replay = []
        focus_list = []
        for h in hs:
            r = byname[h['name']]
            entry = {'harness': h['name'], 'file': h['file'] + '_h.rs', 'status': r['status'], 'wall_s': r.get('wall_s'), 'peak_rss_gb': r.get('peak_gb'),
                     'bounds': h.get('bounds', ''), 'symbolic': h.get('symbolic', ''), 'encodes': h.get('encodes', []), 'stubs': h.get('stubs', []),
                     'unwindset_loops': r.get('unwindset_n', 0)}
            per_h.append(entry)
            if r['status'] != 'done':
                inconclusive.append((h['name'], r.get('detail', '')))
                entry['detail'] = r.get('detail', '')[:300]
                continue
            rec = r['rec']
            for k in ('symex_s', 'solver_s', 'sat_calls', 'vccs', 'vccs_remaining', 'steps'):
                agg[k] += rec[k]
            agg['max_vars'] = max(agg['max_vars'], rec['vars'])
            agg['max_clauses'] = max(agg['max_clauses'], rec['clauses'])
            entry.update(symex_s=round(rec['symex_s'], 1), solver_s=round(rec['solver_s'], 1), checks=len(rec['checks']), verdict=rec['verdict'],
                         sat_vars=rec['vars'], sat_clauses=rec['clauses'])
            fails = []
            foreign = []
            unwind_fail = False
            for c in rec['checks']:
                if c['status'] in ('SATISFIED', 'UNSATISFIABLE', 'UNREACHABLE') and '.cover.' in c['id']:
                    covers += 1
                    if c['status'] == 'SATISFIED':
                        covers_hit += 1
                    continue
                obligations += 1
                if is_unwind_check(c):
                    unwind_checks += 1
                if c['status'] == 'SUCCESS':
                    discharged += 1
                elif c['status'] == 'FAILURE':
                    if is_unwind_check(c):
                        unwind_fail = True
                    tg = tags_of(c['desc'])
                    # tagged with other properties only -> not this property's obligation
                    if tg and prop not in tg and prop != 'DEV':
                        obligations -= 1
                        foreign.append(c)
                        continue
                    fails.append(c)
                else:
                    # UNDETERMINED etc.
                    if rec['error']:
                        pass
            entry['failed_checks'] = [c['desc'] for c in fails]
            if foreign and not fails:
                # A failing `assert!` ends its path, so this property's obligations behind it are undecided on those paths.
                # Unless the failure is a recorded finding of its own property, decide them in a focus re-run.
                unk = [c for c in foreign if not any(match_known(known, tp, h['name'], c['desc']) for tp in tags_of(c['desc']))]
                entry['foreign_failed_checks'] = [c['desc'] for c in foreign]
                if unk:
                    focus_list.append((h, unk, entry))
                    continue
            if rec['error'] and not fails:
                inconclusive.append((h['name'], rec['error']))
                continue
            if not fails:
                # vacuity: all cover points of the harness must be satisfiable
                unsat = [c['desc'] for c in rec['checks'] if '.cover.' in c['id'] and c['status'] != 'SATISFIED']
                if unsat and not h.get('allow_uncovered'):
                    inconclusive.append((h['name'], 'vacuous: cover not satisfiable: ' + '; '.join(unsat)))
                if rec['verdict'] != 'SUCCESSFUL' and not any(c['status'] == 'FAILURE' for c in rec['checks']):
                    inconclusive.append((h['name'], 'verdict %s without failed check' % rec['verdict']))
                continue
            if unwind_fail and all(is_unwind_check(c) for c in fails):
                inconclusive.append((h['name'], 'unwinding assertion failed (bound too small for this tree): ' + fails[0]['loc']))
                continue
            descs = [c['desc'] for c in fails if not is_unwind_check(c)]
            # known findings are keyed by (property, harness family, assertion text)
            unknown = [d for d in descs if not match_known(known, prop, h['name'], d)]
            for d in descs:
                k = match_known(known, prop, h['name'], d)
                if k:
                    known_hits.append((k, h['name'], d))
            if not unknown:
                continue
            if prop == 'DEV':
                violations.append((h['name'], unknown, None, 'DEV mode: no replay'))
                continue
            to_replay.append((h, unknown, entry, None))
        # --- focus re-runs: harnesses in which only obligations of *other* properties failed
        if focus_list:
            fdir = focus_snapshot(hsnap, prop, scratch)
            flog = os.path.join(scratch, 'logs-focus')
            os.makedirs(flog, exist_ok=True)
            log('  [focus] %d harness(es) fail an obligation of another property; re-running them with only the %s obligations' % (len(focus_list), prop))
            fres = {r['harness']: r for r in schedule([h for (h, _, _) in focus_list], pool, fdir, flog)}
            for (h, unk, entry) in focus_list:
                r2 = fres[h['name']]
                why = 'an obligation of another property fails first (%s)' % '; '.join(c['desc'] for c in unk)[:300]
                entry['focus_rerun'] = {'status': r2['status'], 'wall_s': r2.get('wall_s'), 'peak_rss_gb': r2.get('peak_gb')}
                if r2['status'] != 'done':
                    inconclusive.append((h['name'], 'focus re-run %s; %s' % (r2.get('detail', '')[:120], why)))
                    continue
                f2 = [c for c in r2['rec']['checks'] if c['status'] == 'FAILURE']
                mine = [c for c in f2 if prop in tags_of(c['desc']) or (not tags_of(c['desc']) and not in_harness_code(c) and not is_unwind_check(c))]
                other = [c for c in f2 if c not in mine]
                entry['focus_rerun']['failed_checks'] = [c['desc'] for c in f2]
                if mine:
                    descs = [c['desc'] for c in mine]
                    unknown = [d for d in descs if not match_known(known, prop, h['name'], d)]
                    for d in descs:
                        k = match_known(known, prop, h['name'], d)
                        if k:
                            known_hits.append((k, h['name'], d))
                    if unknown:
                        entry['failed_checks'] = unknown
                        to_replay.append((h, unknown, entry, fdir))
                elif other or r2['rec']['error']:
                    inconclusive.append((h['name'], 'focus re-run: harness code behind the failing obligation cannot be evaluated (%s); %s' % ('; '.join(c['desc'] for c in other)[:200], why)))
                else:
                    log('  [focus] %s: every %s obligation holds; %s' % (h['name'], prop, why))
        # replays run in parallel (each is a Kani run with concrete playback + two native builds)
        rlock = threading.Lock()

        def do_replay(h, unknown, entry, hdir):
            ok, path, detail = make_replay(h, unknown, scratch, pool, logdir, hdir=hdir)
            with rlock:
                entry['replay'] = {'reproduced': ok, 'path': path, 'detail': detail[:400]}
                if ok:
                    violations.append((h['name'], unknown, path, detail))
                else:
                    inconclusive.append((h['name'], 'counterexample did not reproduce natively (%s): %s' % (detail[:200], '; '.join(unknown)[:300])))
        ths = []
        for (h, unknown, entry, hdir) in to_replay:
            t = threading.Thread(target=do_replay, args=(h, unknown, entry, hdir), daemon=True)
            t.start()
            ths.append(t)
            while sum(1 for x in ths if x.is_alive()) >= 6:
                time.sleep(1.0)
        for t in ths:
            t.join()
        for (k, hn, d) in known_hits:
            pass
        seen = set()
        for (k, hn, d) in known_hits:
            key = k['id']
            if key in seen:
                continue
            seen.add(key)
            log('KNOWN-FINDING: property=%s %s [%s: %s]' % (prop, k['what'], hn, d))
        for (hn, descs, path, detail) in violations:
            log('VIOLATION property=%s replay=%s' % (prop, path))
            log('  harness=%s failed: %s' % (hn, '; '.join(descs)[:600]))
            log('  native: %s' % detail[:400])
        for (hn, why) in inconclusive:
            log('INCONCLUSIVE harness=%s: %s' % (hn, why[:600]))
        if violations:
            exit_code = 1
        elif inconclusive and exit_code == 0:
            exit_code = 2
        if not hs:
            log('ERROR: no harness registered for %s/%s' % (prop, tier))
            exit_code = 2
        wall = time.time() - t0
        ev = {
            'property_id': prop, 'tier': tier, 'seed': seed, 'level': 'model_checking',
            'coverage': {
                'evaluations': max(agg['vccs'], 1),
                'distinct_nontrivial': agg['vccs_remaining'],
                'rule': 'one evaluation = one verification condition generated by CBMC from the harness (a tagged assertion, Rust panic / overflow / bounds check, unwinding assertion or cover point, per call site and unwinding) and decided for all values of the harness\' symbolic variables; distinct_nontrivial = those conditions that were not discharged by CBMC\'s simplifier and had to be decided by the SAT solver (sum over harnesses of "Generated N VCC(s), M remaining after simplification"); `obligations`/`discharged` count Kani-level checks',
                'obligations': obligations, 'discharged': discharged,
                'harnesses': len(hs), 'harnesses_decided': sum(1 for e in per_h if e['status'] == 'done'),
                'unwinding_assertions': unwind_checks,
                'cover_points': covers, 'cover_points_satisfied': covers_hit,
                'solver': {'engine': 'Kani 0.68.0 / CBMC 6.11.0 / CaDiCaL', 'sat_calls': agg['sat_calls'], 'symex_s': round(agg['symex_s'], 1),
                           'solver_s': round(agg['solver_s'], 1), 'max_sat_variables': agg['max_vars'], 'max_sat_clauses': agg['max_clauses'], 'ssa_steps': agg['steps']},
                'checker_cmd': 'cargo kani --features %s %s --exact --harness <h> [--cbmc-args --unwindset ...] (cwd=%s)' % (FEATURES_VERIFY, ' '.join(KANI_FLAGS), REPO),
                'trusted_base': registry.TRUSTED_BASE,
                'samples': per_h,
                'known_findings_hit': [k['id'] for (k, _, _) in known_hits],
                'inconclusive': [list(x) for x in inconclusive],
                'canaries_ok': canary_ok,
                'exhaustive': False,
                'explanation': 'Each harness is compiled from /repo\'s current working tree by kani-compiler and decided by CBMC/CaDiCaL; "samples" lists every harness of this run with its bounds, symbolic variables, encoded entry points, times and memory. Nothing outside the stated bounds is claimed.',
            },
            'assumptions': registry.ASSUMPTIONS,
            'wall_s': round(wall, 1),
            'violations': len(violations),
        }
        evdir = os.environ.get('VERIF_EVIDENCE_DIR', os.path.join(ROOT, 'evidence'))
        if prop != 'DEV' or 'VERIF_EVIDENCE_DIR' in os.environ:  # the development mode never writes into /verif/evidence
            os.makedirs(evdir, exist_ok=True)
            with open(os.path.join(evdir, prop + '.json'), 'w') as f:
                json.dump(ev, f, indent=1)
        log('== %s: obligations=%d discharged=%d harnesses=%d violations=%d inconclusive=%d known=%d wall=%.0fs exit=%d' % (
            prop, obligations, discharged, len(hs), len(violations), len(inconclusive), len(seen), wall, exit_code))
        return exit_code
    finally:
        if keep_logs:
            dst = os.path.join(keep_logs, prop + '-' + tier)
            shutil.rmtree(dst, ignore_errors=True)
            shutil.copytree(logdir, dst)
        shutil.rmtree(scratch, ignore_errors=True)


def replay_file(path):
    src = open(path).read()
    hfile = re.search(r'^// harness-file: (\S+)', src, re.M).group(1)
    hname = re.search(r'^// harness: (\S+)', src, re.M).group(1)
    body = src.split('\n', 4)[4]
    scratch = tempfile.mkdtemp(prefix='verif-replay-', dir=os.environ.get('VERIF_SCRATCH', '/tmp'))
    try:
        logdir = os.path.join(scratch, 'logs')
        os.makedirs(logdir)
        ok, _, detail = run_replay_source(hfile, hname, body, [], scratch, logdir, store=False)
        log('replay %s: reproduced=%s %s' % (hname, ok, detail))
        return 1 if ok else (0 if ok is False else 2)
    finally:
        shutil.rmtree(scratch, ignore_errors=True)


def main(argv):
    ap = argparse.ArgumentParser()
    ap.add_argument('prop', nargs='?')
    ap.add_argument('--tier', default=os.environ.get('VERIF_TIER', 'quick'))
    ap.add_argument('--replay')
    ap.add_argument('--list', action='store_true')
    ap.add_argument('--setup', action='store_true')
    ap.add_argument('--only', action='append')
    a = ap.parse_args(argv)
    seed = int(os.environ.get('VERIF_SEED', '0') or 0)
    if a.setup:
        build_template(force=True)
        return 0
    if a.list:
        import registry
        for h in registry.HARNESSES:
            print(h['name'], h['file'], h['props'], h.get('mem', 'S'), h.get('est', ''))
        return 0
    if a.replay:
        return replay_file(a.replay)
    if not a.prop:
        ap.print_help()
        return 2
    if a.tier not in ('quick', 'thorough'):
        a.tier = 'quick'
    return check_property(a.prop, a.tier, seed, a.only)
