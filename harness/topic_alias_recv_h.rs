// harness child module of src/mqtt/packet/topic_alias_recv.rs
#[allow(unused_imports)]
use super::*;
