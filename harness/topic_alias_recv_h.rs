// Child module of src/mqtt/packet/topic_alias_recv.rs
// C13 kernel: receive-side table = plain alias -> topic map restricted to 1..=max.
#[allow(unused_imports)]
use super::*;

#[kani::proof]
#[kani::unwind(6)]
fn c13_alias_recv_hist2() {
    let max: u16 = kani::any();
    kani::assume(max >= 1);
    let mut r = TopicAliasRecv::new(max);
    let a1: u16 = kani::any();
    let a2: u16 = kani::any();
    kani::assume(a1 >= 1 && a1 <= max && a2 >= 1 && a2 <= max);
    let t1: bool = kani::any();
    let t2: bool = kani::any();
    r.insert_or_update(if t1 { "a" } else { "b" }, a1);
    r.insert_or_update(if t2 { "a" } else { "b" }, a2);
    let q: u16 = kani::any();
    let got = r.get(q);
    if q == a2 {
        assert!(got == Some(if t2 { "a" } else { "b" }), "[C13] an alias resolves to the topic of the latest binding");
    } else if q == a1 {
        assert!(got == Some(if t1 { "a" } else { "b" }), "[C13] an earlier binding of another alias is kept");
    } else {
        assert!(got.is_none(), "[C13] unbound, zero or out-of-range aliases resolve to nothing");
    }
    kani::cover!(a1 == a2 && t1 != t2, "rebinding");
    r.clear();
    assert!(r.get(q).is_none(), "[C13] clear() drops every binding");
    core::mem::forget(r);
}
