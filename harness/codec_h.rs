// Included by lib_h.rs as `verif_harness::codec`: codec harnesses over the public packet API.
// C02 (round trip), C03 (bytes equal an independently written reference encoding), C04 (decoder totality).
#[allow(unused_imports)]
use super::*;
use crate::mqtt::common::Arc;
use crate::mqtt::packet::v3_1_1;
use crate::mqtt::packet::v5_0;
use crate::mqtt::packet::GenericPacketTrait;
use crate::mqtt::packet::{DecodeResult, MqttBinary, MqttString, Property, Qos, VariableByteInteger};
use crate::mqtt::result_code::*;
use alloc::vec::Vec;

// ------------------------------------------------------------------ reference encodings (from the OASIS text)
/// MQTT 1.5.5 / 2.2.3 variable byte integer: minimal encoding of v (v <= 268_435_455)
fn ref_vbi(v: u32) -> ([u8; 4], usize) {
    let mut out = [0u8; 4];
    let mut x = v;
    let mut n = 0;
    loop {
        let mut b = (x % 128) as u8;
        x /= 128;
        if x > 0 {
            b |= 0x80;
        }
        out[n] = b;
        n += 1;
        if x == 0 {
            break;
        }
    }
    (out, n)
}

/// asserts that every serialisation view of `p` equals `expect` byte for byte
fn check_wire<P: GenericPacketTrait>(p: &P, expect: &[u8]) {
    let n = expect.len();
    assert!(p.size() == n, "[C02,C03] size() equals the length of the specified encoding");
    let cont = p.to_continuous_buffer();
    assert!(cont.len() == n, "[C02,C03] contiguous serialisation has the specified length");
    let mut i = 0;
    while i < n {
        assert!(cont[i] == expect[i], "[C03] contiguous serialisation equals the reference encoding byte for byte");
        i += 1;
    }
    // vectored serialisation concatenates to the same bytes
    let bufs = p.to_buffers();
    let mut k = 0usize;
    let mut bi = 0;
    while bi < bufs.len() {
        let s: &[u8] = &bufs[bi];
        let mut j = 0;
        while j < s.len() {
            assert!(k < n && s[j] == expect[k], "[C02] concatenated vectored serialisation equals the contiguous one");
            k += 1;
            j += 1;
        }
        bi += 1;
    }
    assert!(k == n, "[C02] vectored serialisation has the same total length");
    core::mem::forget(bufs);
    core::mem::forget(cont);
}

// ------------------------------------------------------------------ L0 primitives
#[kani::proof]
#[kani::unwind(6)]
fn c02_vbi_all_u32() {
    let v: u32 = kani::any();
    let r = VariableByteInteger::from_u32(v);
    assert!(r.is_some() == (v <= 268_435_455), "[C02] from_u32 accepts exactly 0..=268435455");
    if let Some(x) = r {
        let (e, n) = ref_vbi(v);
        assert!(x.size() == n, "[C03] VBI length per specification");
        let b = x.as_bytes();
        let mut i = 0;
        while i < n {
            assert!(b[i] == e[i], "[C03] VBI bytes per specification");
            i += 1;
        }
        assert!(x.to_u32() == v, "[C02] VBI value round trip");
        match VariableByteInteger::decode_stream(b) {
            DecodeResult::Ok(y, used) => {
                assert!(used == n && y.to_u32() == v, "[C02] VBI decode(encode(v)) == v, consumed == length");
            }
            _ => assert!(false, "[C02] VBI own encoding decodes"),
        }
        kani::cover!(n == 4, "four-byte encoding");
        kani::cover!(v == 127 || v == 128 || v == 16383 || v == 16384, "length boundary values");
    }
}

#[kani::proof]
#[kani::unwind(6)]
fn c04_vbi_decode_all() {
    let b: [u8; 5] = kani::any();
    let n: usize = kani::any();
    kani::assume(n <= 5);
    let r = VariableByteInteger::decode_stream(&b[..n]);
    // reference decoder
    let mut val: u32 = 0;
    let mut mult: u32 = 1;
    let mut k = 0;
    let mut done = false;
    while k < 4 && k < n {
        val += ((b[k] & 0x7f) as u32) * mult;
        mult = mult.wrapping_mul(128);
        k += 1;
        if b[k - 1] & 0x80 == 0 {
            done = true;
            break;
        }
    }
    match r {
        DecodeResult::Ok(x, used) => {
            assert!(done && used == k && used <= n, "[C04] VBI: consumed bytes never exceed the input");
            assert!(x.to_u32() == val, "[C04] VBI value of a (possibly non-minimal) encoding");
            let (_, m) = ref_vbi(val);
            assert!(x.size() == m, "[C04] accepted VBI is canonical (re-encodes minimally)");
        }
        DecodeResult::Incomplete => {
            assert!(!done && n < 4, "[C04] VBI incomplete only for a truncated encoding");
        }
        DecodeResult::Err(_) => {
            assert!(!done && n >= 4, "[C04] VBI error only for a fifth continuation byte");
        }
    }
}

// MqttString: decode of all byte strings up to 6 bytes
#[kani::proof]
#[kani::unwind(8)]
#[kani::stub(core::str::from_utf8, utf8_model)]
fn c04_string_decode_n6() {
    let b: [u8; 6] = kani::any();
    let n: usize = kani::any();
    kani::assume(n <= 6);
    let r = MqttString::decode(&b[..n]);
    let l = if n >= 2 { ((b[0] as usize) << 8) | b[1] as usize } else { 0 };
    let fits = n >= 2 && 2 + l <= n;
    match r {
        Ok((s, used)) => {
            assert!(fits && used == 2 + l, "[C04] string: consumed == 2 + declared length <= input");
            assert!(utf8_ok(&b[2..2 + l]), "[C04] accepted string is well-formed UTF-8 (precondition of as_str)");
            assert!(s.size() == used && s.len() == l, "[C04] string size consistent");
            let e = s.as_bytes();
            let mut i = 0;
            while i < used {
                assert!(e[i] == b[i], "[C02] string re-serialises to the consumed bytes");
                i += 1;
            }
            kani::cover!(l == 4, "four content bytes");
            core::mem::forget(s);
        }
        Err(_) => {
            assert!(!fits || !utf8_ok(&b[2..2 + l]), "[C04] string rejected only when truncated or not UTF-8");
        }
    }
}

#[kani::proof]
#[kani::unwind(8)]
fn c04_binary_decode_n6() {
    let b: [u8; 6] = kani::any();
    let n: usize = kani::any();
    kani::assume(n <= 6);
    let r = MqttBinary::decode(&b[..n]);
    let l = if n >= 2 { ((b[0] as usize) << 8) | b[1] as usize } else { 0 };
    let fits = n >= 2 && 2 + l <= n;
    match r {
        Ok((s, used)) => {
            assert!(fits && used == 2 + l, "[C04] binary: consumed == 2 + declared length <= input");
            assert!(s.size() == used && s.len() == l, "[C04] binary size consistent");
            let e = s.as_bytes();
            let mut i = 0;
            while i < used {
                assert!(e[i] == b[i], "[C02] binary re-serialises to the consumed bytes");
                i += 1;
            }
            core::mem::forget(s);
        }
        Err(_) => {
            assert!(!fits, "[C04] binary rejected only when truncated");
        }
    }
}

// strings built through the constructor: encoding is 2-byte big-endian length + bytes (3 symbolic bytes)
#[kani::proof]
#[kani::unwind(6)]
#[kani::stub(core::str::from_utf8, utf8_model)]
fn c02_string_new_n3() {
    let b: [u8; 3] = kani::any();
    let n: usize = kani::any();
    kani::assume(n <= 3);
    kani::assume(utf8_ok(&b[..n]));
    let st = unsafe { core::str::from_utf8_unchecked(&b[..n]) };
    let s = MqttString::new(st).unwrap();
    let e = s.as_bytes();
    assert!(e.len() == 2 + n && e[0] == 0 && e[1] == n as u8, "[C03] string: two-byte big-endian length prefix");
    let mut i = 0;
    while i < n {
        assert!(e[2 + i] == b[i], "[C03] string bytes follow the prefix");
        i += 1;
    }
    let (d, used) = MqttString::decode(e).unwrap();
    assert!(used == 2 + n && d == s, "[C02] string decode(encode(s)) == s");
    core::mem::forget(d);
    core::mem::forget(s);
}

// ------------------------------------------------------------------ v3.1.1 fixed-layout packets
macro_rules! v311_ack_codec {
    ($name:ident, $ty:ident, $fh:expr) => {
        #[kani::proof]
        #[kani::unwind(8)]
        fn $name() {
            // u16 identifiers
            let id: u16 = kani::any();
            let r = v3_1_1::$ty::<u16>::builder().packet_id(id).build();
            assert!(r.is_ok() == (id != 0), "[C04] builder enforces a non-zero packet identifier");
            if let Ok(p) = r {
                let expect = [$fh, 2, (id >> 8) as u8, id as u8];
                check_wire(&p, &expect);
                let (q, used) = v3_1_1::$ty::<u16>::parse(&expect[2..]).unwrap();
                assert!(used == 2 && q == p && q.packet_id() == id, "[C02,C03] parse(encode(p)) == p, whole body consumed");
            }
            // u32 identifiers
            let id32: u32 = kani::any();
            let r = v3_1_1::$ty::<u32>::builder().packet_id(id32).build();
            assert!(r.is_ok() == (id32 != 0), "[C04] builder enforces a non-zero packet identifier (u32)");
            if let Ok(p) = r {
                let expect = [$fh, 4, (id32 >> 24) as u8, (id32 >> 16) as u8, (id32 >> 8) as u8, id32 as u8];
                check_wire(&p, &expect);
                let (q, used) = v3_1_1::$ty::<u32>::parse(&expect[2..]).unwrap();
                assert!(used == 4 && q == p && q.packet_id() == id32, "[C02,C03] parse(encode(p)) == p (u32)");
            }
        }
    };
}
v311_ack_codec!(c02_v311_puback, GenericPuback, 0x40);
v311_ack_codec!(c02_v311_pubrec, GenericPubrec, 0x50);
v311_ack_codec!(c02_v311_pubrel, GenericPubrel, 0x62);
v311_ack_codec!(c02_v311_pubcomp, GenericPubcomp, 0x70);
v311_ack_codec!(c02_v311_unsuback, GenericUnsuback, 0xB0);

macro_rules! v311_ack_parse_all {
    ($name:ident, $ty:ident) => {
        #[kani::proof]
        #[kani::unwind(8)]
        fn $name() {
            let b: [u8; 4] = kani::any();
            let n: usize = kani::any();
            kani::assume(n <= 4);
            match v3_1_1::$ty::<u16>::parse(&b[..n]) {
                Ok((p, used)) => {
                    assert!(used <= n, "[C04] consumed bytes never exceed the input");
                    assert!(p.packet_id() != 0, "[C04] accepted packet has a non-zero identifier");
                    let enc = p.to_continuous_buffer();
                    assert!(p.size() == enc.len(), "[C04] size() equals the serialisation length of an accepted packet");
                    let (q, u2) = v3_1_1::$ty::<u16>::parse(&enc[2..]).unwrap();
                    assert!(q == p && u2 == enc.len() - 2, "[C04] re-parsing the re-serialisation yields an equal packet");
                    core::mem::forget(enc);
                }
                Err(_) => {}
            }
        }
    };
}
v311_ack_parse_all!(c04_v311_puback_n4, GenericPuback);
v311_ack_parse_all!(c04_v311_pubrec_n4, GenericPubrec);
v311_ack_parse_all!(c04_v311_pubrel_n4, GenericPubrel);
v311_ack_parse_all!(c04_v311_pubcomp_n4, GenericPubcomp);
v311_ack_parse_all!(c04_v311_unsuback_n4, GenericUnsuback);

// CONNACK v3.1.1: [0x20, 2, session-present flag, return code]
#[kani::proof]
#[kani::unwind(8)]
fn c02_v311_connack() {
    let sp: bool = kani::any();
    let rcb: u8 = kani::any();
    let rc = match ConnectReturnCode::try_from(rcb) {
        Ok(r) => r,
        Err(_) => {
            assert!(rcb > 5, "[C03] CONNACK return codes 0..=5 are defined");
            return;
        }
    };
    assert!(rcb <= 5, "[C03] only CONNACK return codes 0..=5 are defined");
    let p = v3_1_1::Connack::builder().session_present(sp).return_code(rc).build().unwrap();
    let expect = [0x20, 2, sp as u8, rcb];
    check_wire(&p, &expect);
    let (q, used) = v3_1_1::Connack::parse(&expect[2..]).unwrap();
    assert!(used == 2 && q == p && q.session_present() == sp && q.return_code() == rc, "[C02,C03] CONNACK round trip");
}

#[kani::proof]
#[kani::unwind(8)]
fn c04_v311_connack_n3() {
    let b: [u8; 3] = kani::any();
    let n: usize = kani::any();
    kani::assume(n <= 3);
    match v3_1_1::Connack::parse(&b[..n]) {
        Ok((p, used)) => {
            assert!(used <= n && used == 2, "[C04] CONNACK consumes its two bytes");
            assert!(b[0] <= 1, "[C04] CONNACK acknowledge flags: reserved bits must be zero");
            assert!(b[1] <= 5, "[C04] CONNACK return code must be defined");
            let enc = p.to_continuous_buffer();
            assert!(p.size() == enc.len() && enc.len() == 4 && enc[2] == b[0] && enc[3] == b[1], "[C04] accepted CONNACK re-serialises to its input");
            core::mem::forget(enc);
        }
        Err(_) => {}
    }
}

// PINGREQ / PINGRESP / DISCONNECT v3.1.1 and v5.0 PING*: two fixed bytes
#[kani::proof]
#[kani::unwind(6)]
fn c02_fixed_two_byte_packets() {
    let p = v3_1_1::Pingreq::new();
    check_wire(&p, &[0xC0, 0]);
    let p = v3_1_1::Pingresp::new();
    check_wire(&p, &[0xD0, 0]);
    let p = v3_1_1::Disconnect::new();
    check_wire(&p, &[0xE0, 0]);
    let p = v5_0::Pingreq::new();
    check_wire(&p, &[0xC0, 0]);
    let p = v5_0::Pingresp::new();
    check_wire(&p, &[0xD0, 0]);
    // a non-empty body is not a valid PINGREQ / PINGRESP
    let b: [u8; 2] = kani::any();
    let n: usize = kani::any();
    kani::assume(n <= 2);
    let r1 = v3_1_1::Pingreq::parse(&b[..n]);
    let r2 = v3_1_1::Pingresp::parse(&b[..n]);
    let r3 = v5_0::Pingreq::parse(&b[..n]);
    let r4 = v5_0::Pingresp::parse(&b[..n]);
    assert!(r1.is_ok() == (n == 0) && r2.is_ok() == (n == 0), "[C04] v3.1.1 PING packets have an empty body");
    assert!(r3.is_ok() == (n == 0) && r4.is_ok() == (n == 0), "[C04] v5.0 PING packets have an empty body");
    if let Ok((_, used)) = r1 {
        assert!(used == 0, "[C04] nothing consumed for an empty body");
    }
}

// PUBLISH v3.1.1: flags, topic (1 byte), optional id, payload (2 bytes): all values symbolic, shape by QoS
fn v311_publish_shape(qos: u8) {
    let dup: bool = kani::any();
    let retain: bool = kani::any();
    let t: u8 = kani::any();
    kani::assume(t < 0x80 && t != b'#' && t != b'+' && t != 0);
    let id: u16 = kani::any();
    let pl: [u8; 2] = kani::any();
    let tb = [t];
    let topic = unsafe { core::str::from_utf8_unchecked(&tb[..]) };
    let q = match qos {
        0 => Qos::AtMostOnce,
        1 => Qos::AtLeastOnce,
        _ => Qos::ExactlyOnce,
    };
    let mut bld = v3_1_1::GenericPublish::<u16>::builder().topic_name(topic).unwrap().qos(q).retain(retain).payload(&pl[..]);
    if qos > 0 {
        bld = bld.packet_id(id);
        if dup {
            bld = bld.dup(true);
        }
    }
    let r = bld.build();
    if qos > 0 && id == 0 {
        assert!(r.is_err(), "[C04] builder refuses packet identifier 0 for QoS>0");
        return;
    }
    let p = r.unwrap();
    let fh = 0x30 | ((dup && qos > 0) as u8) << 3 | qos << 1 | retain as u8;
    if qos == 0 {
        let expect = [fh, 5, 0, 1, t, pl[0], pl[1]];
        check_wire(&p, &expect);
        let arc: Arc<[u8]> = Arc::from(&expect[2..]);
        let (q2, used) = v3_1_1::GenericPublish::<u16>::parse(fh & 0x0f, arc).unwrap();
        assert!(used == 5 && q2 == p, "[C02] PUBLISH QoS0 round trip");
        assert!(q2.topic_name().as_bytes()[0] == t && q2.packet_id().is_none() && q2.qos() == q && q2.retain() == retain, "[C03] PUBLISH accessors");
        core::mem::forget(q2);
    } else {
        let expect = [fh, 7, 0, 1, t, (id >> 8) as u8, id as u8, pl[0], pl[1]];
        check_wire(&p, &expect);
        let arc: Arc<[u8]> = Arc::from(&expect[2..]);
        let (q2, used) = v3_1_1::GenericPublish::<u16>::parse(fh & 0x0f, arc).unwrap();
        assert!(used == 7 && q2 == p, "[C02] PUBLISH QoS>0 round trip");
        assert!(q2.packet_id() == Some(id) && q2.qos() == q && q2.dup() == dup && q2.retain() == retain, "[C03] PUBLISH accessors");
        let pay = q2.payload().as_slice();
        assert!(pay.len() == 2 && pay[0] == pl[0] && pay[1] == pl[1], "[C03] PUBLISH payload");
        core::mem::forget(q2);
    }
    core::mem::forget(p);
}
#[kani::proof]
#[kani::unwind(10)]
#[kani::stub(core::str::from_utf8, utf8_model)]
fn c02_v311_publish_q0() {
    v311_publish_shape(0)
}
#[kani::proof]
#[kani::unwind(10)]
#[kani::stub(core::str::from_utf8, utf8_model)]
fn c02_v311_publish_q1() {
    v311_publish_shape(1)
}
#[kani::proof]
#[kani::unwind(10)]
#[kani::stub(core::str::from_utf8, utf8_model)]
fn c02_v311_publish_q2() {
    v311_publish_shape(2)
}

// PUBLISH v3.1.1 parser: structured symbolic body [0, 1, t, idhi, idlo, payload] with flags symbolic
#[kani::proof]
#[kani::unwind(10)]
#[kani::stub(core::str::from_utf8, utf8_model)]
fn c04_v311_publish_struct() {
    let flags: u8 = kani::any();
    kani::assume(flags <= 0x0f);
    let x: [u8; 4] = kani::any();
    let body = [0u8, 1, x[0], x[1], x[2], x[3]];
    let arc: Arc<[u8]> = Arc::from(&body[..]);
    match v3_1_1::GenericPublish::<u16>::parse(flags, arc) {
        Ok((p, used)) => {
            assert!(used <= 6, "[C04] consumed bytes never exceed the input");
            let qos = (flags >> 1) & 3;
            assert!(qos <= 2, "[C04] accepted PUBLISH has QoS 0..2");
            if qos > 0 {
                assert!(p.packet_id() != Some(0), "[C04] accepted PUBLISH with QoS>0 has a non-zero packet identifier");
            } else {
                assert!(flags & 0x08 == 0, "[C04] accepted QoS0 PUBLISH has DUP clear");
            }
            let enc = p.to_continuous_buffer();
            assert!(p.size() == enc.len(), "[C04] size() equals the serialisation length of an accepted packet");
            core::mem::forget(enc);
            core::mem::forget(p);
        }
        Err(_) => {}
    }
}
