// Included by lib_h.rs as `verif_harness::codec`: codec harnesses over the public packet API.
// C02 (round trip), C03 (bytes equal an independently written reference encoding), C04 (decoder totality).
#[allow(unused_imports)]
use super::*;
use crate::mqtt::common::Arc;
use crate::mqtt::packet::v3_1_1;
use crate::mqtt::packet::v5_0;
use crate::mqtt::packet::GenericPacketTrait;
use crate::mqtt::packet::{DecodeResult, MqttBinary, MqttString, Property, Qos, VariableByteInteger};
use crate::mqtt::result_code::*;
use alloc::vec::Vec;

// ------------------------------------------------------------------ reference encodings (from the OASIS text)
/// MQTT 1.5.5 / 2.2.3 variable byte integer: minimal encoding of v (v <= 268_435_455)
fn ref_vbi(v: u32) -> ([u8; 4], usize) {
    let mut out = [0u8; 4];
    let mut x = v;
    let mut n = 0;
    loop {
        let mut b = (x % 128) as u8;
        x /= 128;
        if x > 0 {
            b |= 0x80;
        }
        out[n] = b;
        n += 1;
        if x == 0 {
            break;
        }
    }
    (out, n)
}

/// asserts that every serialisation view of `p` equals `expect` byte for byte.
/// For the v5.0 and the string-carrying packets "parse(encode(p)) == p" is asserted as: the parsed packet has
/// the same accessors and `check_wire(parsed, same bytes)`; derived `==` on packets walks the property lists
/// (27-way comparison per phantom element) and does not finish.
fn check_wire<P: GenericPacketTrait>(p: &P, expect: &[u8]) {
    let n = expect.len();
    assert!(p.size() == n, "[C02,C03] size() equals the length of the specified encoding");
    let cont = p.to_continuous_buffer();
    assert!(cont.len() == n, "[C02,C03] contiguous serialisation has the specified length");
    let mut i = 0;
    while i < n {
        assert!(cont[i] == expect[i], "[C03] contiguous serialisation equals the reference encoding byte for byte");
        i += 1;
    }
    // vectored serialisation concatenates to the same bytes
    let bufs = p.to_buffers();
    let mut k = 0usize;
    let mut bi = 0;
    while bi < bufs.len() {
        let s: &[u8] = &bufs[bi];
        let mut j = 0;
        while j < s.len() {
            assert!(k < n && s[j] == expect[k], "[C02] concatenated vectored serialisation equals the contiguous one");
            k += 1;
            j += 1;
        }
        bi += 1;
    }
    assert!(k == n, "[C02] vectored serialisation has the same total length");
    core::mem::forget(bufs);
    core::mem::forget(cont);
}

// ------------------------------------------------------------------ L0 primitives
#[kani::proof]
#[kani::unwind(6)]
fn c02_vbi_all_u32() {
    let v: u32 = kani::any();
    let r = VariableByteInteger::from_u32(v);
    assert!(r.is_some() == (v <= 268_435_455), "[C02] from_u32 accepts exactly 0..=268435455");
    if let Some(x) = r {
        let (e, n) = ref_vbi(v);
        assert!(x.size() == n, "[C03] VBI length per specification");
        let b = x.as_bytes();
        let mut i = 0;
        while i < n {
            assert!(b[i] == e[i], "[C03] VBI bytes per specification");
            i += 1;
        }
        assert!(x.to_u32() == v, "[C02] VBI value round trip");
        match VariableByteInteger::decode_stream(b) {
            DecodeResult::Ok(y, used) => {
                assert!(used == n && y.to_u32() == v, "[C02] VBI decode(encode(v)) == v, consumed == length");
            }
            _ => assert!(false, "[C02] VBI own encoding decodes"),
        }
        kani::cover!(n == 4, "four-byte encoding");
        kani::cover!(v == 127 || v == 128 || v == 16383 || v == 16384, "length boundary values");
    }
}

#[kani::proof]
#[kani::unwind(6)]
fn c04_vbi_decode_all() {
    let b: [u8; 5] = kani::any();
    let n: usize = kani::any();
    kani::assume(n <= 5);
    let r = VariableByteInteger::decode_stream(&b[..n]);
    // reference decoder
    let mut val: u32 = 0;
    let mut mult: u32 = 1;
    let mut k = 0;
    let mut done = false;
    while k < 4 && k < n {
        val += ((b[k] & 0x7f) as u32) * mult;
        mult = mult.wrapping_mul(128);
        k += 1;
        if b[k - 1] & 0x80 == 0 {
            done = true;
            break;
        }
    }
    match r {
        DecodeResult::Ok(x, used) => {
            assert!(done && used == k && used <= n, "[C04] VBI: consumed bytes never exceed the input");
            assert!(x.to_u32() == val, "[C04] VBI value of a (possibly non-minimal) encoding");
            let (_, m) = ref_vbi(val);
            assert!(x.size() == m, "[C04] accepted VBI is canonical (re-encodes minimally)");
        }
        DecodeResult::Incomplete => {
            assert!(!done && n < 4, "[C04] VBI incomplete only for a truncated encoding");
        }
        DecodeResult::Err(_) => {
            assert!(!done && n >= 4, "[C04] VBI error only for a fifth continuation byte");
        }
    }
}

// MqttString: decode of all byte strings up to 6 bytes
#[kani::proof]
#[kani::unwind(8)]
#[kani::stub(core::str::from_utf8, utf8_model)]
fn c04_string_decode_n6() {
    let b: [u8; 6] = kani::any();
    let n: usize = kani::any();
    kani::assume(n <= 6);
    let r = MqttString::decode(&b[..n]);
    let l = if n >= 2 { ((b[0] as usize) << 8) | b[1] as usize } else { 0 };
    let fits = n >= 2 && 2 + l <= n;
    match r {
        Ok((s, used)) => {
            assert!(fits && used == 2 + l, "[C04] string: consumed == 2 + declared length <= input");
            assert!(utf8_ok(&b[2..2 + l]), "[C04] accepted string is well-formed UTF-8 (precondition of as_str)");
            assert!(s.size() == used && s.len() == l, "[C04] string size consistent");
            let e = s.as_bytes();
            let mut i = 0;
            while i < used {
                assert!(e[i] == b[i], "[C02] string re-serialises to the consumed bytes");
                i += 1;
            }
            kani::cover!(l == 4, "four content bytes");
            core::mem::forget(s);
        }
        Err(_) => {
            assert!(!fits || !utf8_ok(&b[2..2 + l]), "[C04] string rejected only when truncated or not UTF-8");
        }
    }
}

#[kani::proof]
#[kani::unwind(8)]
fn c04_binary_decode_n6() {
    let b: [u8; 6] = kani::any();
    let n: usize = kani::any();
    kani::assume(n <= 6);
    let r = MqttBinary::decode(&b[..n]);
    let l = if n >= 2 { ((b[0] as usize) << 8) | b[1] as usize } else { 0 };
    let fits = n >= 2 && 2 + l <= n;
    match r {
        Ok((s, used)) => {
            assert!(fits && used == 2 + l, "[C04] binary: consumed == 2 + declared length <= input");
            assert!(s.size() == used && s.len() == l, "[C04] binary size consistent");
            let e = s.as_bytes();
            let mut i = 0;
            while i < used {
                assert!(e[i] == b[i], "[C02] binary re-serialises to the consumed bytes");
                i += 1;
            }
            core::mem::forget(s);
        }
        Err(_) => {
            assert!(!fits, "[C04] binary rejected only when truncated");
        }
    }
}

// strings built through the constructor: encoding is 2-byte big-endian length + bytes (0..=3 symbolic bytes,
// each length as its own concrete case: a symbolic length makes every allocation size symbolic)
fn string_new_case(n: usize) {
    let b: [u8; 3] = kani::any();
    kani::assume(utf8_ok(&b[..n]));
    let st = unsafe { core::str::from_utf8_unchecked(&b[..n]) };
    let s = MqttString::new(st).unwrap();
    let e = s.as_bytes();
    assert!(e.len() == 2 + n && e[0] == 0 && e[1] == n as u8, "[C03] string: two-byte big-endian length prefix");
    let mut i = 0;
    while i < n {
        assert!(e[2 + i] == b[i], "[C03] string bytes follow the prefix");
        i += 1;
    }
    let (d, used) = MqttString::decode(e).unwrap();
    assert!(used == 2 + n && d == s, "[C02] string decode(encode(s)) == s");
    core::mem::forget(d);
    core::mem::forget(s);
}
#[kani::proof]
#[kani::unwind(6)]
#[kani::stub(core::str::from_utf8, utf8_model)]
fn c02_string_new_n3() {
    string_new_case(0);
    string_new_case(1);
    string_new_case(2);
    string_new_case(3);
}

// ------------------------------------------------------------------ v3.1.1 fixed-layout packets
macro_rules! v311_ack_codec {
    ($name:ident, $ty:ident, $fh:expr) => {
        #[kani::proof]
        #[kani::unwind(8)]
        fn $name() {
            // u16 identifiers
            let id: u16 = kani::any();
            let r = v3_1_1::$ty::<u16>::builder().packet_id(id).build();
            assert!(r.is_ok() == (id != 0), "[C04] builder enforces a non-zero packet identifier");
            if let Ok(p) = r {
                let expect = [$fh, 2, (id >> 8) as u8, id as u8];
                check_wire(&p, &expect);
                let (q, used) = v3_1_1::$ty::<u16>::parse(&expect[2..]).unwrap();
                assert!(used == 2 && q == p && q.packet_id() == id, "[C02,C03] parse(encode(p)) == p, whole body consumed");
            }
            // u32 identifiers
            let id32: u32 = kani::any();
            let r = v3_1_1::$ty::<u32>::builder().packet_id(id32).build();
            assert!(r.is_ok() == (id32 != 0), "[C04] builder enforces a non-zero packet identifier (u32)");
            if let Ok(p) = r {
                let expect = [$fh, 4, (id32 >> 24) as u8, (id32 >> 16) as u8, (id32 >> 8) as u8, id32 as u8];
                check_wire(&p, &expect);
                let (q, used) = v3_1_1::$ty::<u32>::parse(&expect[2..]).unwrap();
                assert!(used == 4 && q == p && q.packet_id() == id32, "[C02,C03] parse(encode(p)) == p (u32)");
            }
        }
    };
}
v311_ack_codec!(c02_v311_puback, GenericPuback, 0x40);
v311_ack_codec!(c02_v311_pubrec, GenericPubrec, 0x50);
v311_ack_codec!(c02_v311_pubrel, GenericPubrel, 0x62);
v311_ack_codec!(c02_v311_pubcomp, GenericPubcomp, 0x70);
v311_ack_codec!(c02_v311_unsuback, GenericUnsuback, 0xB0);

macro_rules! v311_ack_parse_all {
    ($name:ident, $ty:ident) => {
        #[kani::proof]
        #[kani::unwind(8)]
        fn $name() {
            let b: [u8; 4] = kani::any();
            let n: usize = kani::any();
            kani::assume(n <= 4);
            match v3_1_1::$ty::<u16>::parse(&b[..n]) {
                Ok((p, used)) => {
                    assert!(used <= n, "[C04] consumed bytes never exceed the input");
                    assert!(p.packet_id() != 0, "[C04] accepted packet has a non-zero identifier");
                    let enc = p.to_continuous_buffer();
                    assert!(p.size() == enc.len(), "[C04] size() equals the serialisation length of an accepted packet");
                    let (q, u2) = v3_1_1::$ty::<u16>::parse(&enc[2..]).unwrap();
                    assert!(q == p && u2 == enc.len() - 2, "[C04] re-parsing the re-serialisation yields an equal packet");
                    core::mem::forget(enc);
                }
                Err(_) => {}
            }
        }
    };
}
v311_ack_parse_all!(c04_v311_puback_n4, GenericPuback);
v311_ack_parse_all!(c04_v311_pubrec_n4, GenericPubrec);
v311_ack_parse_all!(c04_v311_pubrel_n4, GenericPubrel);
v311_ack_parse_all!(c04_v311_pubcomp_n4, GenericPubcomp);
v311_ack_parse_all!(c04_v311_unsuback_n4, GenericUnsuback);

// CONNACK v3.1.1: [0x20, 2, session-present flag, return code]
#[kani::proof]
#[kani::unwind(8)]
fn c02_v311_connack() {
    let sp: bool = kani::any();
    let rcb: u8 = kani::any();
    let rc = match ConnectReturnCode::try_from(rcb) {
        Ok(r) => r,
        Err(_) => {
            assert!(rcb > 5, "[C03] CONNACK return codes 0..=5 are defined");
            return;
        }
    };
    assert!(rcb <= 5, "[C03] only CONNACK return codes 0..=5 are defined");
    let p = v3_1_1::Connack::builder().session_present(sp).return_code(rc).build().unwrap();
    let expect = [0x20, 2, sp as u8, rcb];
    check_wire(&p, &expect);
    let (q, used) = v3_1_1::Connack::parse(&expect[2..]).unwrap();
    assert!(used == 2 && q == p && q.session_present() == sp && q.return_code() == rc, "[C02,C03] CONNACK round trip");
}

#[kani::proof]
#[kani::unwind(8)]
fn c04_v311_connack_n3() {
    let b: [u8; 3] = kani::any();
    let n: usize = kani::any();
    kani::assume(n <= 3);
    match v3_1_1::Connack::parse(&b[..n]) {
        Ok((p, used)) => {
            assert!(used <= n && used == 2, "[C04] CONNACK consumes its two bytes");
            assert!(b[1] <= 5, "[C04] CONNACK return code must be defined");
            // (reserved acknowledge-flag bits are masked by the parser; the accepted packet is the canonical one)
            let enc = p.to_continuous_buffer();
            assert!(p.size() == enc.len() && enc.len() == 4 && enc[2] == (b[0] & 1) && enc[3] == b[1], "[C04] accepted CONNACK is self-consistent");
            let (q, u2) = v3_1_1::Connack::parse(&enc[2..]).unwrap();
            assert!(q == p && u2 == 2, "[C04] re-parsing the re-serialisation yields an equal packet");
            core::mem::forget(enc);
        }
        Err(_) => {}
    }
}

// PINGREQ / PINGRESP / DISCONNECT v3.1.1 and v5.0 PING*: two fixed bytes
#[kani::proof]
#[kani::unwind(6)]
fn c02_fixed_two_byte_packets() {
    let p = v3_1_1::Pingreq::new();
    check_wire(&p, &[0xC0, 0]);
    let p = v3_1_1::Pingresp::new();
    check_wire(&p, &[0xD0, 0]);
    let p = v3_1_1::Disconnect::new();
    check_wire(&p, &[0xE0, 0]);
    let p = v5_0::Pingreq::new();
    check_wire(&p, &[0xC0, 0]);
    let p = v5_0::Pingresp::new();
    check_wire(&p, &[0xD0, 0]);
    // bodies of up to 2 arbitrary bytes: never more consumed than given, accepted packet is the canonical one
    let b: [u8; 2] = kani::any();
    let n: usize = kani::any();
    kani::assume(n <= 2);
    if let Ok((p, used)) = v3_1_1::Pingreq::parse(&b[..n]) {
        assert!(used <= n, "[C04] consumed bytes never exceed the input");
        check_wire(&p, &[0xC0, 0]);
    }
    if let Ok((p, used)) = v3_1_1::Pingresp::parse(&b[..n]) {
        assert!(used <= n, "[C04] consumed bytes never exceed the input");
        check_wire(&p, &[0xD0, 0]);
    }
    if let Ok((p, used)) = v5_0::Pingreq::parse(&b[..n]) {
        assert!(used <= n, "[C04] consumed bytes never exceed the input");
        check_wire(&p, &[0xC0, 0]);
    }
    if let Ok((p, used)) = v5_0::Pingresp::parse(&b[..n]) {
        assert!(used <= n, "[C04] consumed bytes never exceed the input");
        check_wire(&p, &[0xD0, 0]);
    }
}

// PUBLISH v3.1.1: flags, topic (1 byte), optional id, payload (2 bytes): all values symbolic, shape by QoS
fn v311_publish_shape(qos: u8) {
    let dup: bool = kani::any();
    let retain: bool = kani::any();
    let t: u8 = kani::any();
    kani::assume(t < 0x80 && t != b'#' && t != b'+' && t != 0);
    let id: u16 = kani::any();
    let pl: [u8; 2] = kani::any();
    let tb = [t];
    let topic = unsafe { core::str::from_utf8_unchecked(&tb[..]) };
    let q = match qos {
        0 => Qos::AtMostOnce,
        1 => Qos::AtLeastOnce,
        _ => Qos::ExactlyOnce,
    };
    let mut bld = v3_1_1::GenericPublish::<u16>::builder().topic_name(topic).unwrap().qos(q).retain(retain).payload(&pl[..]);
    if qos > 0 {
        bld = bld.packet_id(id);
        if dup {
            bld = bld.dup(true);
        }
    }
    let r = bld.build();
    if qos > 0 && id == 0 {
        assert!(r.is_err(), "[C04] builder refuses packet identifier 0 for QoS>0");
        return;
    }
    let p = r.unwrap();
    let fh = 0x30 | ((dup && qos > 0) as u8) << 3 | qos << 1 | retain as u8;
    if qos == 0 {
        let expect = [fh, 5, 0, 1, t, pl[0], pl[1]];
        check_wire(&p, &expect);
        let arc: Arc<[u8]> = Arc::from(&expect[2..]);
        let (q2, used) = v3_1_1::GenericPublish::<u16>::parse(fh & 0x0f, arc).unwrap();
        assert!(used == 5 && q2 == p, "[C02] PUBLISH QoS0 round trip");
        assert!(q2.topic_name().as_bytes()[0] == t && q2.packet_id().is_none() && q2.qos() == q && q2.retain() == retain, "[C03] PUBLISH accessors");
        core::mem::forget(q2);
    } else {
        let expect = [fh, 7, 0, 1, t, (id >> 8) as u8, id as u8, pl[0], pl[1]];
        check_wire(&p, &expect);
        let arc: Arc<[u8]> = Arc::from(&expect[2..]);
        let (q2, used) = v3_1_1::GenericPublish::<u16>::parse(fh & 0x0f, arc).unwrap();
        assert!(used == 7 && q2 == p, "[C02] PUBLISH QoS>0 round trip");
        assert!(q2.packet_id() == Some(id) && q2.qos() == q && q2.dup() == dup && q2.retain() == retain, "[C03] PUBLISH accessors");
        let pay = q2.payload().as_slice();
        assert!(pay.len() == 2 && pay[0] == pl[0] && pay[1] == pl[1], "[C03] PUBLISH payload");
        core::mem::forget(q2);
    }
    core::mem::forget(p);
}
#[kani::proof]
#[kani::unwind(10)]
#[kani::stub(core::str::from_utf8, utf8_model)]
fn c02_v311_publish_q0() {
    v311_publish_shape(0)
}
#[kani::proof]
#[kani::unwind(10)]
#[kani::stub(core::str::from_utf8, utf8_model)]
fn c02_v311_publish_q1() {
    v311_publish_shape(1)
}
#[kani::proof]
#[kani::unwind(10)]
#[kani::stub(core::str::from_utf8, utf8_model)]
fn c02_v311_publish_q2() {
    v311_publish_shape(2)
}

// PUBLISH v3.1.1 parser: structured symbolic body [0, 1, t, idhi, idlo, payload] with flags symbolic
#[kani::proof]
#[kani::unwind(10)]
#[kani::stub(core::str::from_utf8, utf8_model)]
fn c04_v311_publish_struct() {
    let flags: u8 = kani::any();
    kani::assume(flags <= 0x0f);
    let x: [u8; 4] = kani::any();
    let body = [0u8, 1, x[0], x[1], x[2], x[3]];
    let arc: Arc<[u8]> = Arc::from(&body[..]);
    match v3_1_1::GenericPublish::<u16>::parse(flags, arc) {
        Ok((p, used)) => {
            assert!(used <= 6, "[C04] consumed bytes never exceed the input");
            let qos = (flags >> 1) & 3;
            assert!(qos <= 2, "[C04] accepted PUBLISH has QoS 0..2");
            if qos > 0 {
                assert!(p.packet_id() != Some(0), "[C04] accepted PUBLISH with QoS>0 has a non-zero packet identifier");
            }
            let enc = p.to_continuous_buffer();
            assert!(p.size() == enc.len(), "[C04] size() equals the serialisation length of an accepted packet");
            core::mem::forget(enc);
            core::mem::forget(p);
        }
        Err(_) => {}
    }
}

// ------------------------------------------------------------------ v5.0 acknowledgements
macro_rules! v5_ack_codec {
    ($name:ident, $ty:ident, $rcty:ident, $fh:expr) => {
        #[kani::proof]
        #[kani::unwind(2)]
        fn $name() {
            let id: u16 = kani::any();
            // shape 1: identifier only
            let r = v5_0::$ty::<u16>::builder().packet_id(id).build();
            assert!(r.is_ok() == (id != 0), "[C04] builder enforces a non-zero packet identifier");
            if let Ok(p) = r {
                let expect = [$fh, 2, (id >> 8) as u8, id as u8];
                check_wire(&p, &expect);
                let (q, used) = v5_0::$ty::<u16>::parse(&expect[2..]).unwrap();
                assert!(used == 2 && q.packet_id() == id && q.reason_code().is_none(), "[C02,C03] parse(encode(p)) has the same fields, whole body consumed");
                check_wire(&q, &expect);
                core::mem::forget(q);
                core::mem::forget(p);
            }
            // shape 2: identifier + reason code (every defined code)
            let rcb: u8 = kani::any();
            if let Ok(rc) = $rcty::try_from(rcb) {
                kani::assume(id != 0);
                let p = v5_0::$ty::<u16>::builder().packet_id(id).reason_code(rc).build().unwrap();
                let expect = [$fh, 3, (id >> 8) as u8, id as u8, rcb];
                check_wire(&p, &expect);
                let (q, used) = v5_0::$ty::<u16>::parse(&expect[2..]).unwrap();
                assert!(used == 3 && q.reason_code() == Some(rc) && q.packet_id() == id, "[C02,C03] reason code round trip");
                check_wire(&q, &expect);
                core::mem::forget(q);
                core::mem::forget(p);
            }
        }
    };
}
v5_ack_codec!(c02_v5_puback, GenericPuback, PubackReasonCode, 0x40);
v5_ack_codec!(c02_v5_pubrec, GenericPubrec, PubrecReasonCode, 0x50);
v5_ack_codec!(c02_v5_pubrel, GenericPubrel, PubrelReasonCode, 0x62);
v5_ack_codec!(c02_v5_pubcomp, GenericPubcomp, PubcompReasonCode, 0x70);

macro_rules! v5_ack_parse_all {
    ($name:ident, $ty:ident) => {
        #[kani::proof]
        #[kani::unwind(2)]
        #[kani::stub(core::str::from_utf8, utf8_model)]
        fn $name() {
            let b: [u8; 3] = kani::any();
            let n: usize = kani::any();
            kani::assume(n <= 3);
            match v5_0::$ty::<u16>::parse(&b[..n]) {
                Ok((p, used)) => {
                    assert!(used <= n, "[C04] consumed bytes never exceed the input");
                    assert!(p.packet_id() != 0, "[C04] accepted packet has a non-zero identifier");
                    let enc = p.to_continuous_buffer();
                    assert!(p.size() == enc.len(), "[C04] size() equals the serialisation length of an accepted packet");
                    let (q, u2) = v5_0::$ty::<u16>::parse(&enc[2..]).unwrap();
                    assert!(u2 == enc.len() - 2 && q.packet_id() == p.packet_id() && q.reason_code() == p.reason_code(), "[C04] re-parsing the re-serialisation yields an equal packet");
                    check_wire(&q, &enc[..]);
                    core::mem::forget(enc);
                    core::mem::forget(q);
                    core::mem::forget(p);
                }
                Err(_) => {}
            }
        }
    };
}
v5_ack_parse_all!(c04_v5_puback_n3, GenericPuback);
v5_ack_parse_all!(c04_v5_pubrec_n3, GenericPubrec);
v5_ack_parse_all!(c04_v5_pubrel_n3, GenericPubrel);
v5_ack_parse_all!(c04_v5_pubcomp_n3, GenericPubcomp);

// v5.0 SUBACK / UNSUBACK with a non-minimal Property Length (0x80 0x00 = 0 in two bytes)
#[kani::proof]
#[kani::unwind(2)]
#[kani::stub(core::str::from_utf8, utf8_model)]
fn c04_v5_suback_nonminimal_proplen() {
    let id: u16 = kani::any();
    let rc: u8 = kani::any();
    let body = [(id >> 8) as u8, id as u8, 0x80, 0x00, rc];
    match v5_0::GenericSuback::<u16>::parse(&body[..]) {
        Ok((p, used)) => {
            assert!(used <= 5, "[C04] consumed bytes never exceed the input");
            let enc = p.to_continuous_buffer();
            assert!(p.size() == enc.len(), "[C04] size() equals the serialisation length of an accepted packet (non-minimal Property Length)");
            core::mem::forget(enc);
            core::mem::forget(p);
        }
        Err(_) => {}
    }
}

// v5.0 PUBLISH through the builder: no properties, 1-byte topic, 2-byte payload, QoS by shape
fn v5_publish_shape(qos: u8) {
    let dup: bool = kani::any();
    let retain: bool = kani::any();
    let t: u8 = kani::any();
    kani::assume(t < 0x80 && t != b'#' && t != b'+' && t != 0);
    let id: u16 = kani::any();
    let pl: [u8; 2] = kani::any();
    let tb = [t];
    let topic = unsafe { core::str::from_utf8_unchecked(&tb[..]) };
    let q = match qos {
        0 => Qos::AtMostOnce,
        1 => Qos::AtLeastOnce,
        _ => Qos::ExactlyOnce,
    };
    let mut bld = v5_0::GenericPublish::<u16>::builder().topic_name(topic).unwrap().qos(q).retain(retain).payload(&pl[..]);
    if qos > 0 {
        bld = bld.packet_id(id);
        if dup {
            bld = bld.dup(true);
        }
    }
    let r = bld.build();
    if qos > 0 && id == 0 {
        assert!(r.is_err(), "[C04] builder refuses packet identifier 0 for QoS>0");
        return;
    }
    let p = r.unwrap();
    let fh = 0x30 | ((dup && qos > 0) as u8) << 3 | qos << 1 | retain as u8;
    if qos == 0 {
        let expect = [fh, 6, 0, 1, t, 0, pl[0], pl[1]];
        check_wire(&p, &expect);
        let arc: Arc<[u8]> = Arc::from(&expect[2..]);
        let (q2, used) = v5_0::GenericPublish::<u16>::parse(fh & 0x0f, arc).unwrap();
        assert!(used == 6 && q2.packet_id().is_none() && q2.qos() == q && q2.retain() == retain, "[C02,C03] v5 PUBLISH QoS0 round trip");
        core::mem::forget(q2);
    } else {
        let expect = [fh, 8, 0, 1, t, (id >> 8) as u8, id as u8, 0, pl[0], pl[1]];
        check_wire(&p, &expect);
        let arc: Arc<[u8]> = Arc::from(&expect[2..]);
        let (q2, used) = v5_0::GenericPublish::<u16>::parse(fh & 0x0f, arc).unwrap();
        assert!(used == 8 && q2.packet_id() == Some(id) && q2.qos() == q && q2.dup() == dup && q2.retain() == retain, "[C02,C03] v5 PUBLISH QoS>0 round trip");
        let pay = q2.payload().as_slice();
        assert!(pay.len() == 2 && pay[0] == pl[0] && pay[1] == pl[1], "[C03] PUBLISH payload");
        core::mem::forget(q2);
    }
    core::mem::forget(p);
}
#[kani::proof]
#[kani::unwind(2)]
#[kani::stub(core::str::from_utf8, utf8_model)]
fn c02_v5_publish_q0() {
    v5_publish_shape(0)
}
#[kani::proof]
#[kani::unwind(2)]
#[kani::stub(core::str::from_utf8, utf8_model)]
fn c02_v5_publish_q1() {
    v5_publish_shape(1)
}

// v5.0 PUBLISH parser on a structured symbolic body, incl. the property length byte
#[kani::proof]
#[kani::unwind(2)]
#[kani::stub(core::str::from_utf8, utf8_model)]
fn c04_v5_publish_struct() {
    let flags: u8 = kani::any();
    kani::assume(flags <= 0x0f);
    let x: [u8; 3] = kani::any();
    let n: usize = kani::any();
    kani::assume(n >= 3 && n <= 6);
    // [0,1,t, idhi, idlo, proplen=0] truncated to n bytes
    let body = [0u8, 1, x[0], x[1], x[2], 0];
    let arc: Arc<[u8]> = if n == 3 {
        Arc::from(&body[..3])
    } else if n == 4 {
        Arc::from(&body[..4])
    } else if n == 5 {
        Arc::from(&body[..5])
    } else {
        Arc::from(&body[..6])
    };
    match v5_0::GenericPublish::<u16>::parse(flags, arc) {
        Ok((p, used)) => {
            assert!(used <= n, "[C04] consumed bytes never exceed the input");
            let qos = (flags >> 1) & 3;
            assert!(qos <= 2, "[C04] accepted PUBLISH has QoS 0..2");
            if qos > 0 {
                assert!(p.packet_id() != Some(0), "[C04] accepted PUBLISH with QoS>0 has a non-zero packet identifier");
                assert!(n == 6, "[C04] a v5.0 PUBLISH without its Property Length byte is not accepted");
            } else {
                assert!(n >= 4, "[C04] a v5.0 PUBLISH without its Property Length byte is not accepted");
            }
            let enc = p.to_continuous_buffer();
            assert!(p.size() == enc.len(), "[C04] size() equals the serialisation length of an accepted packet");
            core::mem::forget(enc);
            core::mem::forget(p);
        }
        Err(_) => {}
    }
}

// v5.0 CONNACK / DISCONNECT / AUTH without properties
#[kani::proof]
#[kani::unwind(2)]
#[kani::stub(core::str::from_utf8, utf8_model)]
fn c02_v5_connack_disconnect_auth() {
    let sp: bool = kani::any();
    let rcb: u8 = kani::any();
    if let Ok(rc) = ConnectReasonCode::try_from(rcb) {
        let r = v5_0::Connack::builder().session_present(sp).reason_code(rc).build();
        if let Ok(p) = r {
            let expect = [0x20, 3, sp as u8, rcb, 0];
            check_wire(&p, &expect);
            let (q, used) = v5_0::Connack::parse(&expect[2..]).unwrap();
            assert!(used == 3 && q.session_present() == sp && q.reason_code() == rc, "[C02,C03] v5 CONNACK round trip");
            core::mem::forget(q);
            core::mem::forget(p);
        }
    }
    if let Ok(rc) = DisconnectReasonCode::try_from(rcb) {
        let p = v5_0::Disconnect::builder().reason_code(rc).build().unwrap();
        let expect = [0xE0, 1, rcb];
        check_wire(&p, &expect);
        let (q, used) = v5_0::Disconnect::parse(&expect[2..]).unwrap();
        assert!(used == 1 && q.reason_code() == Some(rc), "[C02,C03] v5 DISCONNECT round trip");
        core::mem::forget(q);
        core::mem::forget(p);
    }
    let p = v5_0::Disconnect::builder().build().unwrap();
    check_wire(&p, &[0xE0, 0]);
    core::mem::forget(p);
    let p = v5_0::Auth::builder().build().unwrap();
    check_wire(&p, &[0xF0, 0]);
    core::mem::forget(p);
}

// reason-code / identifier tables against the specification (numeric values, all u8)
#[kani::proof]
#[kani::unwind(2)]
fn c03_numeric_tables() {
    let b: u8 = kani::any();
    // MQTT v5.0 2.2.2.2: property identifiers
    let is_prop = matches!(b, 1 | 2 | 3 | 8 | 9 | 11 | 17 | 18 | 19 | 21 | 22 | 23 | 24 | 25 | 26 | 28 | 31 | 33 | 34 | 35 | 36 | 37 | 38 | 39 | 40 | 41 | 42);
    match crate::mqtt::packet::PropertyId::try_from(b) {
        Ok(p) => assert!(is_prop && p.as_u8() == b, "[C03] property identifiers per MQTT v5.0 table 2-4"),
        Err(_) => assert!(!is_prop, "[C03] every specified property identifier is known"),
    }
    // MQTT v5.0 3.4.2.1 PUBACK / 3.5.2.1 PUBREC reason codes
    let is_puback = matches!(b, 0x00 | 0x10 | 0x80 | 0x83 | 0x87 | 0x90 | 0x91 | 0x97 | 0x99);
    assert!(PubackReasonCode::try_from(b).is_ok() == is_puback, "[C03] PUBACK reason codes per specification");
    assert!(PubrecReasonCode::try_from(b).is_ok() == is_puback, "[C03] PUBREC reason codes per specification");
    if let Ok(r) = PubackReasonCode::try_from(b) {
        assert!(r as u8 == b, "[C03] PUBACK reason code value");
    }
    // 3.6.2.1 PUBREL / 3.7.2.1 PUBCOMP
    let is_pubrel = matches!(b, 0x00 | 0x92);
    assert!(PubrelReasonCode::try_from(b).is_ok() == is_pubrel && PubcompReasonCode::try_from(b).is_ok() == is_pubrel, "[C03] PUBREL/PUBCOMP reason codes per specification");
    // 3.2.2.2 CONNACK reason codes
    let is_connack = matches!(b, 0x00 | 0x80 | 0x81 | 0x82 | 0x83 | 0x84 | 0x85 | 0x86 | 0x87 | 0x88 | 0x89 | 0x8A | 0x8C | 0x90 | 0x95 | 0x97 | 0x99 | 0x9A | 0x9B | 0x9C | 0x9D | 0x9F);
    assert!(ConnectReasonCode::try_from(b).is_ok() == is_connack, "[C03] CONNACK reason codes per specification");
    // 3.14.2.1 DISCONNECT reason codes
    let is_disc = matches!(b, 0x00 | 0x04 | 0x80 | 0x81 | 0x82 | 0x83 | 0x87 | 0x89 | 0x8B | 0x8D | 0x8E | 0x8F | 0x90 | 0x93 | 0x94 | 0x95 | 0x96 | 0x97 | 0x98 | 0x99 | 0x9A | 0x9B | 0x9C | 0x9D | 0x9E | 0x9F | 0xA0 | 0xA1 | 0xA2);
    assert!(DisconnectReasonCode::try_from(b).is_ok() == is_disc, "[C03] DISCONNECT reason codes per specification");
    // 3.9.3 SUBACK / 3.11.3 UNSUBACK / 3.15.2.1 AUTH
    let is_suback = matches!(b, 0x00 | 0x01 | 0x02 | 0x80 | 0x83 | 0x87 | 0x8F | 0x91 | 0x97 | 0x9E | 0xA1 | 0xA2);
    assert!(SubackReasonCode::try_from(b).is_ok() == is_suback, "[C03] SUBACK reason codes per specification");
    let is_unsuback = matches!(b, 0x00 | 0x11 | 0x80 | 0x83 | 0x87 | 0x8F | 0x91);
    assert!(UnsubackReasonCode::try_from(b).is_ok() == is_unsuback, "[C03] UNSUBACK reason codes per specification");
    let is_auth = matches!(b, 0x00 | 0x18 | 0x19);
    assert!(AuthReasonCode::try_from(b).is_ok() == is_auth, "[C03] AUTH reason codes per specification");
    // v3.1.1 3.9.3 SUBACK return codes, 3.2.2.3 CONNACK return codes
    assert!(SubackReturnCode::try_from(b).is_ok() == matches!(b, 0 | 1 | 2 | 0x80), "[C03] v3.1.1 SUBACK return codes");
    assert!(ConnectReturnCode::try_from(b).is_ok() == (b <= 5), "[C03] v3.1.1 CONNACK return codes");
    // QoS
    assert!(Qos::try_from(b).is_ok() == (b <= 2), "[C03] QoS values 0..2");
}

// ------------------------------------------------------------------ truncations and structured bodies of the string-carrying packets
// Every prefix of a structured body (lengths concrete, all other bytes symbolic) is parsed: no panic, no
// out-of-bounds read, consumed <= given; the complete body is accepted with a consistent size().
macro_rules! prefixes {
    ($body:expr, $n:expr, $parse:expr, $check_full:expr) => {{
        let body = $body;
        let mut k = 0;
        while k <= $n {
            let r = $parse(&body[..k]);
            match r {
                Ok((p, used)) => {
                    assert!(used <= k, "[C04] consumed bytes never exceed the input");
                    let enc = p.to_continuous_buffer();
                    assert!(p.size() == enc.len(), "[C04] size() equals the serialisation length of an accepted packet");
                    if k == $n {
                        $check_full(&p, used);
                    }
                    core::mem::forget(enc);
                    core::mem::forget(p);
                }
                Err(_) => {
                    assert!(k < $n, "[C03] a specification-conformant encoding is accepted");
                }
            }
            k += 1;
        }
    }};
}

fn ascii(x: u8) -> u8 {
    // a printable ASCII byte that is neither a wildcard nor NUL
    let c = 0x30 + (x % 64);
    c
}

// v3.1.1 CONNECT: every prefix of [0,4,'MQTT',4,flags,ka,ka, 0,1,c] (keep-alive and clean flag symbolic)
#[kani::proof]
#[kani::unwind(16)]
#[kani::stub(core::str::from_utf8, utf8_model)]
fn c04_v311_connect_prefixes() {
    let x: [u8; 2] = kani::any();
    let clean: bool = kani::any();
    let b1: [u8; 13] = [0, 4, b'M', b'Q', b'T', b'T', 4, (clean as u8) << 1, x[0], x[1], 0, 1, b'c'];
    let mut k = 0;
    while k <= 13 {
        match v3_1_1::Connect::parse(&b1[..k]) {
            Ok((p, used)) => {
                assert!(k == 13 && used == 13, "[C04] only the complete CONNECT body is accepted, and it is consumed exactly");
                assert!(p.keep_alive() == ((x[0] as u16) << 8 | x[1] as u16) && p.clean_session() == clean, "[C03] CONNECT accessors return the encoded values");
                assert!(p.size() == 15, "[C04] size() equals the serialisation length of an accepted packet");
                core::mem::forget(p);
            }
            Err(_) => {
                assert!(k < 13, "[C03] a specification-conformant encoding is accepted");
            }
        }
        k += 1;
    }
}

// v5.0 CONNECT without properties: [0,4,'MQTT',5,flags,ka,ka,0, 0,1,c]
#[kani::proof]
#[kani::unwind(2)]
#[kani::stub(core::str::from_utf8, utf8_model)]
fn c04_v5_connect_prefixes() {
    let x: [u8; 3] = kani::any();
    let clean: bool = kani::any();
    let b1: [u8; 14] = [0, 4, b'M', b'Q', b'T', b'T', 5, (clean as u8) << 1, x[0], x[1], 0, 0, 1, ascii(x[2])];
    prefixes!(b1, 14, |d: &[u8]| v5_0::Connect::parse(d), |p: &v5_0::Connect, used: usize| {
        assert!(used == 14 && p.keep_alive() == ((x[0] as u16) << 8 | x[1] as u16) && p.clean_start() == clean, "[C03] v5 CONNECT accessors return the encoded values");
    });
}

// SUBSCRIBE v3.1.1 [id, 0,1,t, opts] and v5.0 [id, 0, 0,1,t, opts]; UNSUBSCRIBE; SUBACK; UNSUBACK
#[kani::proof]
#[kani::unwind(2)]
#[kani::stub(core::str::from_utf8, utf8_model)]
fn c04_subscribe_family_prefixes() {
    let x: [u8; 4] = kani::any();
    kani::assume(x[0] != 0 || x[1] != 0);
    let qos = x[3] % 3;
    let b: [u8; 6] = [x[0], x[1], 0, 1, ascii(x[2]), qos];
    prefixes!(b, 6, |d: &[u8]| v3_1_1::GenericSubscribe::<u16>::parse(d), |p: &v3_1_1::GenericSubscribe<u16>, used: usize| {
        assert!(used == 6 && p.packet_id() == ((x[0] as u16) << 8 | x[1] as u16), "[C03] SUBSCRIBE identifier");
    });
    let b: [u8; 7] = [x[0], x[1], 0, 0, 1, ascii(x[2]), qos];
    prefixes!(b, 7, |d: &[u8]| v5_0::GenericSubscribe::<u16>::parse(d), |p: &v5_0::GenericSubscribe<u16>, used: usize| {
        assert!(used == 7 && p.packet_id() == ((x[0] as u16) << 8 | x[1] as u16), "[C03] v5 SUBSCRIBE identifier");
    });
    let b: [u8; 5] = [x[0], x[1], 0, 1, ascii(x[2])];
    prefixes!(b, 5, |d: &[u8]| v3_1_1::GenericUnsubscribe::<u16>::parse(d), |p: &v3_1_1::GenericUnsubscribe<u16>, used: usize| {
        assert!(used == 5 && p.packet_id() == ((x[0] as u16) << 8 | x[1] as u16), "[C03] UNSUBSCRIBE identifier");
    });
    let b: [u8; 6] = [x[0], x[1], 0, 0, 1, ascii(x[2])];
    prefixes!(b, 6, |d: &[u8]| v5_0::GenericUnsubscribe::<u16>::parse(d), |p: &v5_0::GenericUnsubscribe<u16>, used: usize| {
        assert!(used == 6 && p.packet_id() == ((x[0] as u16) << 8 | x[1] as u16), "[C03] v5 UNSUBSCRIBE identifier");
    });
}

#[kani::proof]
#[kani::unwind(2)]
#[kani::stub(core::str::from_utf8, utf8_model)]
fn c04_suback_family_prefixes() {
    let x: [u8; 3] = kani::any();
    kani::assume(x[0] != 0 || x[1] != 0);
    let rc = if x[2] % 4 == 3 { 0x80 } else { x[2] % 4 };
    let b: [u8; 3] = [x[0], x[1], rc];
    prefixes!(b, 3, |d: &[u8]| v3_1_1::GenericSuback::<u16>::parse(d), |p: &v3_1_1::GenericSuback<u16>, used: usize| {
        assert!(used == 3 && p.packet_id() == ((x[0] as u16) << 8 | x[1] as u16), "[C03] SUBACK identifier");
    });
    let b: [u8; 4] = [x[0], x[1], 0, rc];
    prefixes!(b, 4, |d: &[u8]| v5_0::GenericSuback::<u16>::parse(d), |p: &v5_0::GenericSuback<u16>, used: usize| {
        assert!(used == 4 && p.packet_id() == ((x[0] as u16) << 8 | x[1] as u16), "[C03] v5 SUBACK identifier");
    });
    let b: [u8; 4] = [x[0], x[1], 0, if x[2] & 1 == 0 { 0 } else { 0x11 }];
    prefixes!(b, 4, |d: &[u8]| v5_0::GenericUnsuback::<u16>::parse(d), |p: &v5_0::GenericUnsuback<u16>, used: usize| {
        assert!(used == 4 && p.packet_id() == ((x[0] as u16) << 8 | x[1] as u16), "[C03] v5 UNSUBACK identifier");
    });
}

// ------------------------------------------------------------------ property section on both sides of the 127/128 boundary
// v5.0 acknowledgement with reason code and one Reason String of L bytes: property section = 3 + L bytes.
// L = 124 -> 127 (one-byte Property Length), L = 125 -> 128 (two-byte Property Length).
macro_rules! v5_ack_long_props {
    ($name:ident, $ty:ident, $rcty:ident, $fh:expr, $l:expr) => {
        #[kani::proof]
        #[kani::unwind(2)]
        #[kani::stub(core::str::from_utf8, utf8_model)]
        fn $name() {
            const L: usize = $l;
            let id: u16 = kani::any();
            kani::assume(id != 0);
            let first: u8 = kani::any();
            let last: u8 = kani::any();
            kani::assume(first >= 0x20 && first < 0x7f && last >= 0x20 && last < 0x7f);
            let mut sb = [b'a'; L];
            sb[0] = first;
            sb[L - 1] = last;
            let st = unsafe { core::str::from_utf8_unchecked(&sb[..]) };
            let props = alloc::vec![Property::ReasonString(crate::mqtt::packet::ReasonString::new(st).unwrap())];
            let p = v5_0::$ty::<u16>::builder().packet_id(id).reason_code($rcty::Success).props(props).build().unwrap();
            let plen = 3 + L; // identifier byte + two length bytes + L
            let plen_bytes = if plen < 128 { 1 } else { 2 };
            let rl = 2 + 1 + plen_bytes + plen;
            let rl_bytes = if rl < 128 { 1 } else { 2 };
            let total = 1 + rl_bytes + rl;
            assert!(p.size() == total, "[C02] size() of a packet whose property section is at the 127/128 boundary");
            let enc = p.to_continuous_buffer();
            assert!(enc.len() == total, "[C02] contiguous serialisation length at the boundary");
            assert!(enc[0] == $fh, "[C03] fixed header");
            let body = &enc[1 + rl_bytes..];
            // Remaining Length field decodes to the body length
            let rlv = if rl_bytes == 1 { enc[1] as usize } else { (enc[1] & 0x7f) as usize + 128 * enc[2] as usize };
            assert!(rlv == body.len() && rlv == rl, "[C02] Remaining Length on the wire equals the body length");
            // Property Length field
            let pl = if plen_bytes == 1 { body[3] as usize } else { (body[3] & 0x7f) as usize + 128 * body[4] as usize };
            assert!(pl == plen, "[C03] Property Length equals the length of the property section");
            assert!(body[3 + plen_bytes] == 31 && body[3 + plen_bytes + 3] == first && body[body.len() - 1] == last, "[C03] Reason String property bytes");
            let (q, used) = v5_0::$ty::<u16>::parse(body).unwrap();
            assert!(used == body.len(), "[C02] parse consumes exactly the body");
            assert!(q.size() == total, "[C02] parsed packet reports the same size");
            let enc2 = q.to_continuous_buffer();
            assert!(enc2.len() == total && enc2[1] == enc[1] && enc2[2] == enc[2], "[C02] parsed packet re-serialises with the same Remaining Length");
            check_wire(&q, &enc[..]);
            core::mem::forget(enc);
            core::mem::forget(enc2);
            core::mem::forget(q);
            core::mem::forget(p);
        }
    };
}
v5_ack_long_props!(c02_v5_puback_props127, GenericPuback, PubackReasonCode, 0x40, 124);
v5_ack_long_props!(c02_v5_puback_props128, GenericPuback, PubackReasonCode, 0x40, 125);
v5_ack_long_props!(c02_v5_pubrec_props128, GenericPubrec, PubrecReasonCode, 0x50, 125);
v5_ack_long_props!(c02_v5_pubrel_props128, GenericPubrel, PubrelReasonCode, 0x62, 125);
v5_ack_long_props!(c02_v5_pubcomp_props128, GenericPubcomp, PubcompReasonCode, 0x70, 125);

// lighter variant of the above: a concrete-shape body whose property section is 128 bytes (two-byte Property
// Length) is parsed, and the parsed packet must report / re-serialise the same lengths (id and one string byte symbolic)
macro_rules! v5_ack_parse_long_props {
    ($name:ident, $ty:ident, $fh:expr) => {
        #[kani::proof]
        #[kani::unwind(2)]
        #[kani::stub(core::str::from_utf8, utf8_trusting)]
        fn $name() {
            let id: u16 = kani::any();
            kani::assume(id != 0);
            let c: u8 = kani::any();
            kani::assume(c >= 0x20 && c < 0x7f);
            let mut body = [b'a'; 133];
            body[0] = (id >> 8) as u8;
            body[1] = id as u8;
            body[2] = 0; // reason code Success
            body[3] = 0x80; // Property Length 128 = 80 01
            body[4] = 0x01;
            body[5] = 31; // Reason String
            body[6] = 0;
            body[7] = 125;
            body[132] = c; // last string byte (keeps the UTF-8 automaton state concrete up to the end)
            let (q, used) = v5_0::$ty::<u16>::parse(&body[..]).unwrap();
            assert!(used == 133, "[C02,C04] parse consumes exactly the body (two-byte Property Length)");
            assert!(q.packet_id() == id, "[C02] identifier survives");
            assert!(q.size() == 136, "[C02,C04] size() of the parsed packet equals the length it was parsed from (two-byte Property Length)");
            let enc = q.to_continuous_buffer();
            assert!(enc.len() == 136, "[C02,C04] re-serialisation has the same length");
            assert!(enc[0] == $fh && enc[1] == 0x85 && enc[2] == 0x01, "[C02,C03] fixed header and Remaining Length 133 = 85 01");
            assert!(
                enc[3] == body[0] && enc[4] == body[1] && enc[5] == 0 && enc[6] == 0x80 && enc[7] == 0x01 && enc[8] == 31 && enc[9] == 0 && enc[10] == 125 && enc[11] == b'a' && enc[135] == c,
                "[C02,C03] re-serialised body equals the parsed bytes"
            );
            core::mem::forget(enc);
            core::mem::forget(q);
        }
    };
}
v5_ack_parse_long_props!(c02_v5_puback_parse_props128, GenericPuback, 0x40);
v5_ack_parse_long_props!(c02_v5_pubrec_parse_props128, GenericPubrec, 0x50);
v5_ack_parse_long_props!(c02_v5_pubrel_parse_props128, GenericPubrel, 0x62);
v5_ack_parse_long_props!(c02_v5_pubcomp_parse_props128, GenericPubcomp, 0x70);

// ------------------------------------------------------------------ v3.1.1 string-carrying packets through the builders
// CONNECT v3.1.1: client id (1 byte), keep-alive, clean session, optional user name + password
#[kani::proof]
#[kani::unwind(2)]
#[kani::stub(core::str::from_utf8, utf8_model)]
fn c02_v311_connect() {
    let x: [u8; 4] = kani::any();
    let ka: u16 = kani::any();
    let clean: bool = kani::any();
    let cid = [ascii(x[0])];
    let cid_s = unsafe { core::str::from_utf8_unchecked(&cid[..]) };
    // shape 1: no credentials, no will
    let p = v3_1_1::Connect::builder().client_id(cid_s).unwrap().keep_alive(ka).clean_session(clean).build().unwrap();
    let expect: [u8; 15] = [0x10, 13, 0, 4, b'M', b'Q', b'T', b'T', 4, (clean as u8) << 1, (ka >> 8) as u8, ka as u8, 0, 1, cid[0]];
    check_wire(&p, &expect);
    let (q, used) = v3_1_1::Connect::parse(&expect[2..]).unwrap();
    assert!(used == 13 && q.keep_alive() == ka && q.clean_session() == clean, "[C02,C03] CONNECT round trip");
    core::mem::forget(q);
    core::mem::forget(p);
    // shape 2: user name and password (1 byte each)
    let un = [ascii(x[1])];
    let un_s = unsafe { core::str::from_utf8_unchecked(&un[..]) };
    let pw = [x[2]];
    let p = v3_1_1::Connect::builder().client_id(cid_s).unwrap().keep_alive(ka).clean_session(clean).user_name(un_s).unwrap().password(alloc::vec![pw[0]]).unwrap().build().unwrap();
    let expect: [u8; 21] = [0x10, 19, 0, 4, b'M', b'Q', b'T', b'T', 4, 0xC0 | (clean as u8) << 1, (ka >> 8) as u8, ka as u8, 0, 1, cid[0], 0, 1, un[0], 0, 1, pw[0]];
    check_wire(&p, &expect);
    let (q, used) = v3_1_1::Connect::parse(&expect[2..]).unwrap();
    assert!(used == 19, "[C02,C03] CONNECT with credentials round trip");
    core::mem::forget(q);
    core::mem::forget(p);
}

// SUBSCRIBE / SUBACK / UNSUBSCRIBE v3.1.1 with one entry
#[kani::proof]
#[kani::unwind(2)]
#[kani::stub(core::str::from_utf8, utf8_model)]
fn c02_v311_subscribe_family() {
    use crate::mqtt::packet::{SubEntry, SubOpts};
    let x: [u8; 2] = kani::any();
    let id: u16 = kani::any();
    kani::assume(id != 0);
    let t = [ascii(x[0])];
    let t_s = unsafe { core::str::from_utf8_unchecked(&t[..]) };
    let qb = x[1] % 3;
    let qos = match qb {
        0 => Qos::AtMostOnce,
        1 => Qos::AtLeastOnce,
        _ => Qos::ExactlyOnce,
    };
    let e = SubEntry::new(t_s, SubOpts::new().set_qos(qos)).unwrap();
    let p = v3_1_1::GenericSubscribe::<u16>::builder().packet_id(id).entries(alloc::vec![e]).build().unwrap();
    let expect: [u8; 8] = [0x82, 6, (id >> 8) as u8, id as u8, 0, 1, t[0], qb];
    check_wire(&p, &expect);
    let (q, used) = v3_1_1::GenericSubscribe::<u16>::parse(&expect[2..]).unwrap();
    assert!(used == 6 && q.packet_id() == id, "[C02,C03] SUBSCRIBE round trip");
    core::mem::forget(q);
    core::mem::forget(p);
    let rc = match qb {
        0 => SubackReturnCode::SuccessMaximumQos0,
        1 => SubackReturnCode::SuccessMaximumQos1,
        _ => SubackReturnCode::SuccessMaximumQos2,
    };
    let p = v3_1_1::GenericSuback::<u16>::builder().packet_id(id).return_codes(alloc::vec![rc]).build().unwrap();
    let expect: [u8; 5] = [0x90, 3, (id >> 8) as u8, id as u8, qb];
    check_wire(&p, &expect);
    let (q, used) = v3_1_1::GenericSuback::<u16>::parse(&expect[2..]).unwrap();
    assert!(used == 3, "[C02,C03] SUBACK round trip");
    core::mem::forget(q);
    core::mem::forget(p);
    let p = v3_1_1::GenericUnsubscribe::<u16>::builder().packet_id(id).entries(alloc::vec![t_s]).unwrap().build().unwrap();
    let expect: [u8; 7] = [0xA2, 5, (id >> 8) as u8, id as u8, 0, 1, t[0]];
    check_wire(&p, &expect);
    let (q, used) = v3_1_1::GenericUnsubscribe::<u16>::parse(&expect[2..]).unwrap();
    assert!(used == 5, "[C02,C03] UNSUBSCRIBE round trip");
    core::mem::forget(q);
    core::mem::forget(p);
}
