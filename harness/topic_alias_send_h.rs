// harness child module of src/mqtt/packet/topic_alias_send.rs
#[allow(unused_imports)]
use super::*;
