// Child module of src/mqtt/packet/topic_alias_send.rs
// C13 kernel: the sender-side alias table against an independent model of the receiver's table
// (alias -> topic, as a spec-conformant receiver would build it from the same insertions) and of
// least-recently-used order. Histories of 2 symbolic operations from new(max), max <= 2 (3 operations / max 3 exceeded 16 GB).
#[allow(unused_imports)]
use super::*;

const TOPICS: [&str; 3] = ["a", "b", "c"];

struct Model {
    // r[alias] = topic index + 1, 0 = unbound   (index 0 unused)
    r: [u8; 4],
    // LRU order: aliases from least to most recently used, n entries
    order: [u16; 3],
    n: usize,
    max: u16,
}
impl Model {
    fn touch(&mut self, a: u16) {
        // move a to the most-recent end (insert if absent)
        let mut i = 0;
        let mut found = false;
        let mut w = 0;
        let old = self.order;
        while i < self.n {
            if old[i] == a {
                found = true;
            } else {
                self.order[w] = old[i];
                w += 1;
            }
            i += 1;
        }
        self.order[w] = a;
        if !found {
            self.n += 1;
        }
    }
    fn first_vacant(&self) -> Option<u16> {
        let mut a = 1;
        while a <= self.max {
            if self.r[a as usize] == 0 {
                return Some(a);
            }
            a += 1;
        }
        None
    }
}

fn check_against_model(s: &TopicAliasSend, m: &Model) {
    // every alias resolves to the topic the receiver holds for it
    let mut a: u16 = 0;
    while a <= 4 {
        let got = s.peek(a);
        if a >= 1 && a <= m.max && m.r[a as usize] != 0 {
            assert!(got == Some(TOPICS[(m.r[a as usize] - 1) as usize]), "[C13] an alias resolves to the topic last sent with it");
            assert!(s.value_allocator.is_used(a), "[C13] a bound alias is marked used");
        } else {
            assert!(got.is_none(), "[C13] an alias never sent with a topic resolves to nothing");
            if a >= 1 && a <= m.max {
                assert!(!s.value_allocator.is_used(a), "[C13] an unbound alias is vacant");
            }
        }
        a += 1;
    }
    // find_by_topic returns an alias that the receiver resolves to that very topic
    let mut t = 0;
    while t < 3 {
        let f = s.find_by_topic(TOPICS[t]);
        let mut bound = false;
        let mut a = 1;
        while a <= m.max {
            if m.r[a as usize] == (t as u8 + 1) {
                bound = true;
            }
            a += 1;
        }
        match f {
            Some(al) => {
                assert!(al >= 1 && al <= m.max && m.r[al as usize] == (t as u8 + 1), "[C13] automatic mapping only uses an alias currently bound to that topic");
            }
            None => assert!(!bound, "[C13] a bound topic is found"),
        }
        t += 1;
    }
    // LRU victim: a vacant alias if any (smallest), otherwise the least recently used
    let v = s.get_lru_alias();
    match m.first_vacant() {
        Some(x) => assert!(v == x, "[C13] a vacant alias is preferred (smallest first)"),
        None => assert!(v == m.order[0], "[C13] eviction picks the least recently used alias"),
    }
}

#[kani::proof]
#[kani::unwind(6)]
fn c13_alias_send_hist2() {
    let max: u16 = kani::any();
    kani::assume(max >= 1 && max <= 2);
    let mut s = TopicAliasSend::new(max);
    let mut m = Model { r: [0; 4], order: [0; 3], n: 0, max };
    let mut step = 0;
    while step < 2 {
        let op: u8 = kani::any();
        kani::assume(op <= 1);
        let a: u16 = kani::any();
        if op == 0 {
            // a PUBLISH carrying (topic, alias) is sent: binds on both sides
            let t: usize = kani::any();
            kani::assume(t < 3 && a >= 1 && a <= max);
            s.insert_or_update(TOPICS[t], a);
            m.r[a as usize] = t as u8 + 1;
            m.touch(a);
        } else {
            // a PUBLISH with empty topic and alias a is validated: LRU refreshed when bound
            kani::assume(a <= 4);
            let got = s.get(a).is_some();
            let bound = a >= 1 && a <= max && m.r[a as usize] != 0;
            assert!(got == bound, "[C13] an empty-topic PUBLISH is only accepted with a bound alias in 1..=max");
            if bound {
                m.touch(a);
            }
        }
        step += 1;
    }
    kani::cover!(m.n == 2, "two bindings");
    kani::cover!(m.n == 1, "one binding");
    check_against_model(&s, &m);
    core::mem::forget(s);
}

// clear() forgets everything (used when bindings must not survive)
#[kani::proof]
#[kani::unwind(6)]
fn c13_alias_send_clear() {
    let max: u16 = kani::any();
    kani::assume(max >= 1);
    let mut s = TopicAliasSend::new(max);
    let a: u16 = kani::any();
    kani::assume(a >= 1 && a <= max);
    s.insert_or_update("a", a);
    assert!(s.peek(a) == Some("a") && s.find_by_topic("a") == Some(a), "[C13] binding recorded");
    s.clear();
    assert!(s.peek(a).is_none() && s.find_by_topic("a").is_none() && !s.value_allocator.is_used(a), "[C13] clear() drops every binding");
    let q: u16 = kani::any();
    assert!(s.peek(q).is_none(), "[C13] nothing resolves after clear()");
    core::mem::forget(s);
}
