// Verification-only container models (compiled only under cfg(kani)).
// Fixed-capacity, array-backed stand-ins for hashbrown::HashSet/HashMap,
// indexmap::IndexMap and alloc::collections::BTreeSet exposing exactly the API
// subset this crate uses. Exceeding CAP is a reported failure, never silently cut.
use alloc::boxed::Box;
use core::borrow::Borrow;
use core::ops::{Bound, RangeBounds};

pub const CAP: usize = 6;

#[derive(Clone, Debug)]
pub struct SlotVec<T> {
    items: [Option<T>; CAP],
    len: usize,
}
impl<T> SlotVec<T> {
    pub fn new() -> Self {
        Self {
            items: [None, None, None, None, None, None],
            len: 0,
        }
    }
    pub fn len(&self) -> usize {
        self.len
    }
    pub fn at(&self, i: usize) -> &T {
        self.items[i].as_ref().unwrap()
    }
    pub fn at_mut(&mut self, i: usize) -> &mut T {
        self.items[i].as_mut().unwrap()
    }
    // Slots at positions >= len are always None. Elements are moved with ptr::read / ptr::write: a plain
    // assignment `items[j] = ...` runs the drop glue of the old slot value, and for big element types
    // (stored packets) CBMC explores that glue as phantom paths on every symbolic index (measured: GBs).
    pub fn push(&mut self, x: T) {
        assert!(self.len < CAP, "verif container model capacity exceeded");
        unsafe { core::ptr::write(&mut self.items[self.len], Some(x)) };
        self.len += 1;
    }
    pub fn insert_at(&mut self, i: usize, x: T) {
        assert!(self.len < CAP, "verif container model capacity exceeded");
        assert!(i <= self.len, "index out of bounds");
        let mut j = self.len;
        while j > i {
            unsafe {
                let v = core::ptr::read(&self.items[j - 1]);
                core::ptr::write(&mut self.items[j], v);
            }
            j -= 1;
        }
        unsafe { core::ptr::write(&mut self.items[i], Some(x)) };
        self.len += 1;
    }
    pub fn remove_at(&mut self, i: usize) -> T {
        assert!(i < self.len, "index out of bounds");
        let x = unsafe { core::ptr::read(&self.items[i]) }.unwrap();
        let mut j = i;
        while j + 1 < self.len {
            unsafe {
                let v = core::ptr::read(&self.items[j + 1]);
                core::ptr::write(&mut self.items[j], v);
            }
            j += 1;
        }
        unsafe { core::ptr::write(&mut self.items[self.len - 1], None) };
        self.len -= 1;
        x
    }
    pub fn clear(&mut self) {
        let mut j = 0;
        while j < self.len {
            self.items[j] = None;
            j += 1;
        }
        self.len = 0;
    }
    pub fn iter(&self) -> SlotIter<'_, T> {
        SlotIter { v: self, lo: 0, hi: self.len }
    }
    pub fn position<F: FnMut(&T) -> bool>(&self, mut f: F) -> Option<usize> {
        let mut j = 0;
        while j < self.len {
            if f(self.at(j)) {
                return Some(j);
            }
            j += 1;
        }
        None
    }
}
pub struct SlotIter<'a, T> {
    v: &'a SlotVec<T>,
    lo: usize,
    hi: usize,
}
impl<'a, T> Iterator for SlotIter<'a, T> {
    type Item = &'a T;
    fn next(&mut self) -> Option<&'a T> {
        if self.lo < self.hi {
            let r = self.v.at(self.lo);
            self.lo += 1;
            Some(r)
        } else {
            None
        }
    }
}
impl<'a, T> DoubleEndedIterator for SlotIter<'a, T> {
    fn next_back(&mut self) -> Option<&'a T> {
        if self.lo < self.hi {
            self.hi -= 1;
            Some(self.v.at(self.hi))
        } else {
            None
        }
    }
}
pub struct SlotDrain<T> {
    v: SlotVec<T>,
    pos: usize,
}
impl<T> Iterator for SlotDrain<T> {
    type Item = T;
    fn next(&mut self) -> Option<T> {
        if self.pos < self.v.len {
            let r = self.v.items[self.pos].take();
            self.pos += 1;
            r
        } else {
            None
        }
    }
}

#[derive(Clone, Debug)]
pub struct HashSet<T> {
    v: SlotVec<T>,
}
impl<T> Default for HashSet<T> {
    fn default() -> Self {
        Self { v: SlotVec::new() }
    }
}
impl<T: PartialEq> HashSet<T> {
    pub fn insert(&mut self, x: T) -> bool {
        if self.v.position(|e| *e == x).is_some() {
            false
        } else {
            self.v.push(x);
            true
        }
    }
    pub fn remove(&mut self, x: &T) -> bool {
        if let Some(i) = self.v.position(|e| e == x) {
            self.v.remove_at(i);
            true
        } else {
            false
        }
    }
    pub fn contains(&self, x: &T) -> bool {
        self.v.position(|e| e == x).is_some()
    }
    pub fn clear(&mut self) {
        self.v.clear()
    }
    pub fn drain(&mut self) -> SlotDrain<T> {
        let v = core::mem::replace(&mut self.v, SlotVec::new());
        SlotDrain { v, pos: 0 }
    }
    pub fn len(&self) -> usize {
        self.v.len()
    }
    pub fn is_empty(&self) -> bool {
        self.v.len() == 0
    }
    pub fn iter(&self) -> SlotIter<'_, T> {
        self.v.iter()
    }
}

#[derive(Clone, Debug)]
pub struct HashMap<K, V> {
    e: SlotVec<Box<(K, V)>>,
}
impl<K, V> Default for HashMap<K, V> {
    fn default() -> Self {
        Self { e: SlotVec::new() }
    }
}
pub struct Entry<'a, K, V> {
    m: &'a mut HashMap<K, V>,
    k: K,
}
impl<'a, K: PartialEq, V> Entry<'a, K, V> {
    pub fn or_insert_with<F: FnOnce() -> V>(self, f: F) -> &'a mut V {
        let k = self.k;
        let pos = self.m.e.position(|p| p.0 == k);
        let i = match pos {
            Some(i) => i,
            None => {
                self.m.e.push(Box::new((k, f())));
                self.m.e.len() - 1
            }
        };
        &mut self.m.e.at_mut(i).1
    }
}
impl<K: PartialEq, V> HashMap<K, V> {
    pub fn insert(&mut self, k: K, v: V) -> Option<V> {
        if let Some(i) = self.e.position(|p| p.0 == k) {
            Some(core::mem::replace(&mut self.e.at_mut(i).1, v))
        } else {
            self.e.push(Box::new((k, v)));
            None
        }
    }
    pub fn get<Q: ?Sized + PartialEq>(&self, k: &Q) -> Option<&V>
    where
        K: Borrow<Q>,
    {
        let i = self.e.position(|p| p.0.borrow() == k)?;
        Some(&self.e.at(i).1)
    }
    pub fn get_mut<Q: ?Sized + PartialEq>(&mut self, k: &Q) -> Option<&mut V>
    where
        K: Borrow<Q>,
    {
        let i = self.e.position(|p| p.0.borrow() == k)?;
        Some(&mut self.e.at_mut(i).1)
    }
    pub fn remove<Q: ?Sized + PartialEq>(&mut self, k: &Q) -> Option<V>
    where
        K: Borrow<Q>,
    {
        let i = self.e.position(|p| p.0.borrow() == k)?;
        Some((*self.e.remove_at(i)).1)
    }
    pub fn entry(&mut self, k: K) -> Entry<'_, K, V> {
        Entry { m: self, k }
    }
    pub fn clear(&mut self) {
        self.e.clear()
    }
    pub fn len(&self) -> usize {
        self.e.len()
    }
}

#[derive(Clone, Debug)]
pub struct IndexMap<K, V> {
    e: SlotVec<(K, V)>,
}
impl<K, V> Default for IndexMap<K, V> {
    fn default() -> Self {
        Self { e: SlotVec::new() }
    }
}
impl<K: PartialEq, V> IndexMap<K, V> {
    pub fn insert(&mut self, k: K, v: V) -> Option<V> {
        if let Some(i) = self.e.position(|p| p.0 == k) {
            Some(core::mem::replace(&mut self.e.at_mut(i).1, v))
        } else {
            self.e.push((k, v));
            None
        }
    }
    pub fn get(&self, k: &K) -> Option<&V> {
        let i = self.e.position(|p| &p.0 == k)?;
        Some(&self.e.at(i).1)
    }
    pub fn get_full(&self, k: &K) -> Option<(usize, &K, &V)> {
        let i = self.e.position(|p| &p.0 == k)?;
        let p = self.e.at(i);
        Some((i, &p.0, &p.1))
    }
    pub fn contains_key(&self, k: &K) -> bool {
        self.e.position(|p| &p.0 == k).is_some()
    }
    pub fn shift_remove(&mut self, k: &K) -> Option<V> {
        let i = self.e.position(|p| &p.0 == k)?;
        Some(self.e.remove_at(i).1)
    }
    pub fn shift_remove_index(&mut self, i: usize) -> Option<(K, V)> {
        if i < self.e.len() {
            Some(self.e.remove_at(i))
        } else {
            None
        }
    }
    pub fn keys(&self) -> impl Iterator<Item = &K> {
        self.e.iter().map(|p| &p.0)
    }
    pub fn values(&self) -> impl Iterator<Item = &V> {
        self.e.iter().map(|p| &p.1)
    }
    pub fn iter(&self) -> impl Iterator<Item = (&K, &V)> {
        self.e.iter().map(|p| (&p.0, &p.1))
    }
    pub fn clear(&mut self) {
        self.e.clear()
    }
    pub fn len(&self) -> usize {
        self.e.len()
    }
}
impl<'a, K, V> IntoIterator for &'a IndexMap<K, V> {
    type Item = (&'a K, &'a V);
    type IntoIter = core::iter::Map<SlotIter<'a, (K, V)>, fn(&'a (K, V)) -> (&'a K, &'a V)>;
    fn into_iter(self) -> Self::IntoIter {
        fn f<'b, K, V>(p: &'b (K, V)) -> (&'b K, &'b V) {
            (&p.0, &p.1)
        }
        self.e.iter().map(f as fn(&'a (K, V)) -> (&'a K, &'a V))
    }
}

/// Ordered-set model: slots kept sorted by `Ord::cmp`, unique up to `Ordering::Equal`.
#[derive(Clone, Debug)]
pub struct BTreeSet<T> {
    v: SlotVec<T>,
}
impl<T: Ord> BTreeSet<T> {
    pub fn new() -> Self {
        Self { v: SlotVec::new() }
    }
    fn lower(&self, x: &T) -> usize {
        let mut i = 0;
        while i < self.v.len() && self.v.at(i).cmp(x) == core::cmp::Ordering::Less {
            i += 1;
        }
        i
    }
    fn upper(&self, x: &T) -> usize {
        let mut i = 0;
        while i < self.v.len() && self.v.at(i).cmp(x) != core::cmp::Ordering::Greater {
            i += 1;
        }
        i
    }
    pub fn insert(&mut self, x: T) -> bool {
        let i = self.lower(&x);
        if i < self.v.len() && self.v.at(i).cmp(&x) == core::cmp::Ordering::Equal {
            return false;
        }
        self.v.insert_at(i, x);
        true
    }
    pub fn remove(&mut self, x: &T) -> bool {
        let i = self.lower(x);
        if i < self.v.len() && self.v.at(i).cmp(x) == core::cmp::Ordering::Equal {
            self.v.remove_at(i);
            true
        } else {
            false
        }
    }
    pub fn iter(&self) -> SlotIter<'_, T> {
        self.v.iter()
    }
    pub fn range<R: RangeBounds<T>>(&self, r: R) -> SlotIter<'_, T> {
        let lo = match r.start_bound() {
            Bound::Unbounded => 0,
            Bound::Included(x) => self.lower(x),
            Bound::Excluded(x) => self.upper(x),
        };
        let hi = match r.end_bound() {
            Bound::Unbounded => self.v.len(),
            Bound::Included(x) => self.upper(x),
            Bound::Excluded(x) => self.lower(x),
        };
        let hi = if hi < lo { lo } else { hi };
        SlotIter { v: &self.v, lo, hi }
    }
    pub fn clear(&mut self) {
        self.v.clear()
    }
    pub fn len(&self) -> usize {
        self.v.len()
    }
}
impl<'a, T> IntoIterator for &'a BTreeSet<T> {
    type Item = &'a T;
    type IntoIter = SlotIter<'a, T>;
    fn into_iter(self) -> Self::IntoIter {
        self.v.iter()
    }
}

// The event-list / Vec model lives in verif_model_vec.rs (it needs the crate's event types and is
// therefore left out of the stand-alone differential self-test of the container models).
#[cfg(not(verif_model_selftest))]
include!(concat!(env!("VERIF_HARNESS_DIR"), "/verif_model_vec.rs"));
