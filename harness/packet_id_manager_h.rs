// harness child module of src/mqtt/connection/packet_id_manager.rs
#[allow(unused_imports)]
use super::*;
