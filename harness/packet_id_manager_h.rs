// Child module of src/mqtt/connection/packet_id_manager.rs
// C08 (i): identifier management over an arbitrary valid allocator state (<= 3 free runs inside 1..=65535).
#[allow(unused_imports)]
use super::*;
use crate::mqtt::common::value_allocator_verif::mk_alloc_u16;

fn free_in(ivs: &[(u16, u16); 3], n: usize, q: u16) -> bool {
    let mut r = false;
    let mut i = 0;
    while i < n {
        if ivs[i].0 <= q && q <= ivs[i].1 {
            r = true;
        }
        i += 1;
    }
    r
}

#[kani::proof]
#[kani::unwind(8)]
fn c08_pidman_step_u16() {
    let n: usize = kani::any();
    kani::assume(n <= 3);
    let ivs: [(u16, u16); 3] = kani::any();
    let mut i = 0;
    while i < n {
        kani::assume(1 <= ivs[i].0 && ivs[i].0 <= ivs[i].1);
        if i > 0 {
            kani::assume((ivs[i - 1].1 as u32) + 1 < ivs[i].0 as u32);
        }
        i += 1;
    }
    let mut m = PacketIdManager::<u16> { allocator: mk_alloc_u16(1, u16::MAX, &ivs[..n]) };
    let q: u16 = kani::any(); // universal probe
    let was_used = q != 0 && !free_in(&ivs, n, q);
    assert!(m.is_used_id(q) == was_used, "[C08] an id is in use exactly when it is in 1..=max and not free (0 is never in use)");
    let op: u8 = kani::any();
    kani::assume(op <= 2);
    let x: u16 = kani::any();
    if op == 0 {
        match m.acquire_unique_id() {
            Ok(id) => {
                kani::cover!(id == u16::MAX, "the maximum identifier can be handed out");
                assert!(n > 0 && id != 0 && free_in(&ivs, n, id), "[C08] acquire never hands out an identifier that is in use");
                assert!(m.is_used_id(id), "[C08] an acquired identifier is in use");
                assert!(m.is_used_id(q) == (was_used || q == id), "[C08] acquire changes only the acquired identifier");
            }
            Err(e) => {
                kani::cover!(true, "exhaustion reported");
                assert!(n == 0 && e == MqttError::PacketIdentifierFullyUsed, "[C08] exhaustion is reported only when every identifier 1..=max is in use");
            }
        }
    } else if op == 1 {
        let r = m.register_id(x);
        assert!(r.is_ok() == (x != 0 && free_in(&ivs, n, x)), "[C08] register succeeds exactly for free identifiers in 1..=max");
        assert!(m.is_used_id(q) == (was_used || (r.is_ok() && q == x)), "[C08] register changes only its own identifier");
    } else {
        // release is only reached for identifiers that are in use (every call site guards with is_used_id)
        kani::assume(m.is_used_id(x));
        m.release_id(x);
        assert!(!m.is_used_id(x), "[C08] a released identifier is free");
        assert!(m.is_used_id(q) == (was_used && q != x), "[C08] release changes only its own identifier");
    }
    core::mem::forget(m);
}

/// Manager whose in-use identifiers are exactly `used` (ascending, pairwise non-adjacent, 1 < id < 65535):
/// the free pool is written down directly (k + 1 runs), so the pre-state has a concrete shape and no
/// allocator operation has to be executed symbolically to reach it.
pub(crate) fn mk_pidman(used: &[u16]) -> PacketIdManager<u16> {
    let mut ivs: [(u16, u16); 4] = [(0, 0); 4];
    let mut lo: u16 = 1;
    let mut k = 0;
    while k < used.len() {
        ivs[k] = (lo, used[k] - 1);
        lo = used[k] + 1;
        k += 1;
    }
    ivs[k] = (lo, u16::MAX);
    PacketIdManager::<u16> { allocator: mk_alloc_u16(1, u16::MAX, &ivs[..k + 1]) }
}
