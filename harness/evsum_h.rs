// Included by lib_h.rs as `verif_harness::evsum`: compact, Copy summaries of events and packets.
// Under the verification build the connection module's event lists store only these summaries
// (computed from the real event at push time through the real accessors); under replay they are
// computed on demand from the real Vec<GenericEvent>.
use crate::mqtt::connection::event::{GenericEvent, TimerKind};
use crate::mqtt::packet::v3_1_1;
use crate::mqtt::packet::v5_0;
use crate::mqtt::packet::GenericPacket;
use crate::mqtt::packet::GenericPacketTrait;
use crate::mqtt::packet::GenericStorePacket;
use crate::mqtt::packet::IsPacketId;
use crate::mqtt::packet::Property;
use crate::mqtt::packet::Qos;
use crate::mqtt::result_code::MqttError;
use num_traits::ToPrimitive;

/// Harnesses that need packet fields (identifier, size, reason code, flags, alias, topic) of sent or
/// delivered packets set this before the step; otherwise only the packet kind is recorded (reading
/// fields of the 29-variant packet union is what makes symbolic execution slow).
pub static mut EV_DETAIL: bool = false;
pub fn set_detail(on: bool) {
    unsafe {
        EV_DETAIL = on;
    }
}
fn detail() -> bool {
    unsafe { EV_DETAIL }
}

pub const K_RECV: u8 = 0;
pub const K_SEND: u8 = 1;
pub const K_RELEASED: u8 = 2;
pub const K_RESET: u8 = 3;
pub const K_CANCEL: u8 = 4;
pub const K_ERR: u8 = 5;
pub const K_CLOSE: u8 = 6;

#[derive(Clone, Copy, Debug, PartialEq, Eq)]
pub struct PktSum {
    /// MQTT control packet type 1..=15
    pub ptype: u8,
    pub v5: bool,
    pub has_id: bool,
    pub id: u32,
    pub size: usize,
    /// reason / return code byte, 0xFFFF when the packet carries none
    pub rc: u16,
    pub qos: u8,
    pub dup: bool,
    pub retain: bool,
    pub topic_empty: bool,
    /// first byte of the topic name (0 when empty)
    pub topic0: u8,
    /// Topic Alias property value, 0 when absent
    pub alias: u16,
    pub session_present: bool,
}
impl PktSum {
    pub const NONE: PktSum = PktSum {
        ptype: 0, v5: false, has_id: false, id: 0, size: 0, rc: 0xFFFF, qos: 0, dup: false, retain: false,
        topic_empty: false, topic0: 0, alias: 0, session_present: false,
    };
}

#[derive(Clone, Copy, Debug, PartialEq, Eq)]
pub struct EvSum {
    pub kind: u8,
    /// timer kind 0 = PingreqSend, 1 = PingreqRecv, 2 = PingrespRecv (RESET / CANCEL)
    pub timer: u8,
    pub ms: u64,
    /// released packet identifier (RELEASED)
    pub id: u32,
    /// MqttError discriminant (ERR)
    pub err: u16,
    /// release_packet_id_if_send_error (SEND): Some(id) -> (true, id)
    pub rel_some: bool,
    pub rel: u32,
    pub pkt: PktSum,
}
impl EvSum {
    pub const NONE: EvSum = EvSum { kind: 0xFF, timer: 0xFF, ms: 0, id: 0, err: 0, rel_some: false, rel: 0, pkt: PktSum::NONE };
}

fn qos_u8(q: Qos) -> u8 {
    match q {
        Qos::AtMostOnce => 0,
        Qos::AtLeastOnce => 1,
        Qos::ExactlyOnce => 2,
    }
}
fn id32<P: IsPacketId>(p: P) -> u32 {
    p.to_u32().unwrap_or(0)
}
fn first_byte(s: &str) -> u8 {
    let b = s.as_bytes();
    if b.is_empty() {
        0
    } else {
        b[0]
    }
}
fn alias_of(props: &[Property]) -> u16 {
    let mut a = 0u16;
    for p in props {
        if let Property::TopicAlias(t) = p {
            a = t.val();
        }
    }
    a
}

fn base(ptype: u8, v5: bool, size: usize) -> PktSum {
    let mut s = PktSum::NONE;
    s.ptype = ptype;
    s.v5 = v5;
    s.size = size;
    s
}
fn with_id<P: IsPacketId>(mut s: PktSum, id: P) -> PktSum {
    s.has_id = true;
    s.id = id32(id);
    s
}
fn with_rc(mut s: PktSum, rc: Option<u8>) -> PktSum {
    if let Some(r) = rc {
        s.rc = r as u16;
    }
    s
}

pub fn summarize_publish_v311<P: IsPacketId>(p: &v3_1_1::GenericPublish<P>) -> PktSum {
    let mut s = base(3, false, p.size());
    if let Some(id) = p.packet_id() {
        s = with_id(s, id);
    }
    s.qos = qos_u8(p.qos());
    s.dup = p.dup();
    s.retain = p.retain();
    s.topic_empty = p.topic_name().is_empty();
    s.topic0 = first_byte(p.topic_name());
    s
}
pub fn summarize_publish_v5<P: IsPacketId>(p: &v5_0::GenericPublish<P>) -> PktSum {
    let mut s = base(3, true, p.size());
    if let Some(id) = p.packet_id() {
        s = with_id(s, id);
    }
    s.qos = qos_u8(p.qos());
    s.dup = p.dup();
    s.retain = p.retain();
    s.topic_empty = p.topic_name().is_empty();
    s.topic0 = first_byte(p.topic_name());
    s.alias = alias_of(p.props());
    s
}

/// packet kind only (no field is read): cheap under symbolic execution
pub fn summarize_packet_kind<P: IsPacketId>(p: &GenericPacket<P>) -> PktSum {
    let (t, v5) = match p {
        GenericPacket::V3_1_1Connect(_) => (1, false),
        GenericPacket::V3_1_1Connack(_) => (2, false),
        GenericPacket::V3_1_1Publish(_) => (3, false),
        GenericPacket::V3_1_1Puback(_) => (4, false),
        GenericPacket::V3_1_1Pubrec(_) => (5, false),
        GenericPacket::V3_1_1Pubrel(_) => (6, false),
        GenericPacket::V3_1_1Pubcomp(_) => (7, false),
        GenericPacket::V3_1_1Subscribe(_) => (8, false),
        GenericPacket::V3_1_1Suback(_) => (9, false),
        GenericPacket::V3_1_1Unsubscribe(_) => (10, false),
        GenericPacket::V3_1_1Unsuback(_) => (11, false),
        GenericPacket::V3_1_1Pingreq(_) => (12, false),
        GenericPacket::V3_1_1Pingresp(_) => (13, false),
        GenericPacket::V3_1_1Disconnect(_) => (14, false),
        GenericPacket::V5_0Connect(_) => (1, true),
        GenericPacket::V5_0Connack(_) => (2, true),
        GenericPacket::V5_0Publish(_) => (3, true),
        GenericPacket::V5_0Puback(_) => (4, true),
        GenericPacket::V5_0Pubrec(_) => (5, true),
        GenericPacket::V5_0Pubrel(_) => (6, true),
        GenericPacket::V5_0Pubcomp(_) => (7, true),
        GenericPacket::V5_0Subscribe(_) => (8, true),
        GenericPacket::V5_0Suback(_) => (9, true),
        GenericPacket::V5_0Unsubscribe(_) => (10, true),
        GenericPacket::V5_0Unsuback(_) => (11, true),
        GenericPacket::V5_0Pingreq(_) => (12, true),
        GenericPacket::V5_0Pingresp(_) => (13, true),
        GenericPacket::V5_0Disconnect(_) => (14, true),
        GenericPacket::V5_0Auth(_) => (15, true),
    };
    let mut s = PktSum::NONE;
    s.ptype = t;
    s.v5 = v5;
    s
}

pub fn summarize_packet<P: IsPacketId>(p: &GenericPacket<P>) -> PktSum {
    match p {
        GenericPacket::V3_1_1Connect(x) => base(1, false, x.size()),
        GenericPacket::V3_1_1Connack(x) => {
            let mut s = with_rc(base(2, false, x.size()), Some(x.return_code() as u8));
            s.session_present = x.session_present();
            s
        }
        GenericPacket::V3_1_1Publish(x) => summarize_publish_v311(x),
        GenericPacket::V3_1_1Puback(x) => with_id(base(4, false, x.size()), x.packet_id()),
        GenericPacket::V3_1_1Pubrec(x) => with_id(base(5, false, x.size()), x.packet_id()),
        GenericPacket::V3_1_1Pubrel(x) => with_id(base(6, false, x.size()), x.packet_id()),
        GenericPacket::V3_1_1Pubcomp(x) => with_id(base(7, false, x.size()), x.packet_id()),
        GenericPacket::V3_1_1Subscribe(x) => with_id(base(8, false, x.size()), x.packet_id()),
        GenericPacket::V3_1_1Suback(x) => with_id(base(9, false, x.size()), x.packet_id()),
        GenericPacket::V3_1_1Unsubscribe(x) => with_id(base(10, false, x.size()), x.packet_id()),
        GenericPacket::V3_1_1Unsuback(x) => with_id(base(11, false, x.size()), x.packet_id()),
        GenericPacket::V3_1_1Pingreq(x) => base(12, false, x.size()),
        GenericPacket::V3_1_1Pingresp(x) => base(13, false, x.size()),
        GenericPacket::V3_1_1Disconnect(x) => base(14, false, x.size()),
        GenericPacket::V5_0Connect(x) => base(1, true, x.size()),
        GenericPacket::V5_0Connack(x) => {
            let mut s = with_rc(base(2, true, x.size()), Some(x.reason_code() as u8));
            s.session_present = x.session_present();
            s
        }
        GenericPacket::V5_0Publish(x) => summarize_publish_v5(x),
        GenericPacket::V5_0Puback(x) => with_rc(with_id(base(4, true, x.size()), x.packet_id()), x.reason_code().map(|r| r as u8)),
        GenericPacket::V5_0Pubrec(x) => with_rc(with_id(base(5, true, x.size()), x.packet_id()), x.reason_code().map(|r| r as u8)),
        GenericPacket::V5_0Pubrel(x) => with_rc(with_id(base(6, true, x.size()), x.packet_id()), x.reason_code().map(|r| r as u8)),
        GenericPacket::V5_0Pubcomp(x) => with_rc(with_id(base(7, true, x.size()), x.packet_id()), x.reason_code().map(|r| r as u8)),
        GenericPacket::V5_0Subscribe(x) => with_id(base(8, true, x.size()), x.packet_id()),
        GenericPacket::V5_0Suback(x) => with_id(base(9, true, x.size()), x.packet_id()),
        GenericPacket::V5_0Unsubscribe(x) => with_id(base(10, true, x.size()), x.packet_id()),
        GenericPacket::V5_0Unsuback(x) => with_id(base(11, true, x.size()), x.packet_id()),
        GenericPacket::V5_0Pingreq(x) => base(12, true, x.size()),
        GenericPacket::V5_0Pingresp(x) => base(13, true, x.size()),
        GenericPacket::V5_0Disconnect(x) => with_rc(base(14, true, x.size()), x.reason_code().map(|r| r as u8)),
        GenericPacket::V5_0Auth(x) => with_rc(base(15, true, x.size()), x.reason_code().map(|r| r as u8)),
    }
}

pub fn summarize_store_packet<P: IsPacketId>(p: &GenericStorePacket<P>) -> PktSum {
    match p {
        GenericStorePacket::V3_1_1Publish(x) => summarize_publish_v311(x),
        GenericStorePacket::V3_1_1Pubrel(x) => with_id(base(6, false, x.size()), x.packet_id()),
        GenericStorePacket::V5_0Publish(x) => summarize_publish_v5(x),
        GenericStorePacket::V5_0Pubrel(x) => with_rc(with_id(base(6, true, x.size()), x.packet_id()), x.reason_code().map(|r| r as u8)),
    }
}

pub fn timer_u8(k: TimerKind) -> u8 {
    match k {
        TimerKind::PingreqSend => 0,
        TimerKind::PingreqRecv => 1,
        TimerKind::PingrespRecv => 2,
    }
}

pub fn summarize_event<P: IsPacketId>(e: &GenericEvent<P>) -> EvSum {
    let mut s = EvSum::NONE;
    match e {
        GenericEvent::NotifyPacketReceived(p) => {
            s.kind = K_RECV;
            s.pkt = if detail() { summarize_packet(p) } else { summarize_packet_kind(p) };
        }
        GenericEvent::RequestSendPacket { packet, release_packet_id_if_send_error } => {
            s.kind = K_SEND;
            s.pkt = if detail() { summarize_packet(packet) } else { summarize_packet_kind(packet) };
            if let Some(id) = release_packet_id_if_send_error {
                s.rel_some = true;
                s.rel = id32(*id);
            }
        }
        GenericEvent::NotifyPacketIdReleased(id) => {
            s.kind = K_RELEASED;
            s.id = id32(*id);
        }
        GenericEvent::RequestTimerReset { kind, duration_ms } => {
            s.kind = K_RESET;
            s.timer = timer_u8(*kind);
            s.ms = *duration_ms;
        }
        GenericEvent::RequestTimerCancel(kind) => {
            s.kind = K_CANCEL;
            s.timer = timer_u8(*kind);
        }
        GenericEvent::NotifyError(err) => {
            s.kind = K_ERR;
            s.err = *err as u16;
        }
        GenericEvent::RequestClose => {
            s.kind = K_CLOSE;
        }
    }
    s
}
