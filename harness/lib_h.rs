// Child module of src/lib.rs: shared support for all harnesses + canaries.

use crate::prelude::*;

/// Exact byte-wise UTF-8 validator used as a stub for `core::str::from_utf8`
/// (Unicode 15 table 3-7: well-formed UTF-8 byte sequences).
pub fn utf8_model(v: &[u8]) -> Result<&str, core::str::Utf8Error> {
    if utf8_ok(v) {
        Ok(unsafe { core::str::from_utf8_unchecked(v) })
    } else {
        // The error value is only ever mapped to MqttError::MalformedPacket by callers.
        Err(unsafe { core::mem::zeroed() })
    }
}

/// Stub for harnesses whose string bytes are concrete ASCII and long (128-byte property sections): accepts without
/// looking at the bytes. UTF-8 validation is outside the claim of those harnesses (stated in their bounds).
pub fn utf8_trusting(v: &[u8]) -> Result<&str, core::str::Utf8Error> {
    Ok(unsafe { core::str::from_utf8_unchecked(v) })
}

pub fn utf8_ok(v: &[u8]) -> bool {
    let mut i = 0usize;
    let n = v.len();
    while i < n {
        let b = v[i];
        if b < 0x80 {
            i += 1;
            continue;
        }
        let (need, lo, hi) = if b >= 0xC2 && b <= 0xDF {
            (1, 0x80u8, 0xBFu8)
        } else if b == 0xE0 {
            (2, 0xA0, 0xBF)
        } else if (b >= 0xE1 && b <= 0xEC) || b == 0xEE || b == 0xEF {
            (2, 0x80, 0xBF)
        } else if b == 0xED {
            (2, 0x80, 0x9F)
        } else if b == 0xF0 {
            (3, 0x90, 0xBF)
        } else if b >= 0xF1 && b <= 0xF3 {
            (3, 0x80, 0xBF)
        } else if b == 0xF4 {
            (3, 0x80, 0x8F)
        } else {
            return false;
        };
        if i + need >= n {
            return false;
        }
        let c1 = v[i + 1];
        if c1 < lo || c1 > hi {
            return false;
        }
        let mut k = 2;
        while k <= need {
            let c = v[i + k];
            if c < 0x80 || c > 0xBF {
                return false;
            }
            k += 1;
        }
        i += need + 1;
    }
    true
}

// ---- canaries: these two MUST fail on every run, otherwise the run is void ----
#[kani::proof]
fn canary_overflow() {
    let x: u16 = kani::any();
    let y = x + 1;
    assert!(y != 7);
}

#[kani::proof]
fn canary_oob() {
    let a = [1u8, 2, 3];
    let i: usize = kani::any();
    kani::assume(i <= 3);
    assert!(a[i] != 9);
}

// must pass and must reach its cover: sanity of the positive direction
#[kani::proof]
fn canary_pass() {
    let x: u16 = kani::any();
    kani::assume(x < 100);
    assert!(x + 1 <= 100);
    kani::cover!(x == 99, "boundary reached");
}

pub(crate) mod evsum {
    include!(concat!(env!("VERIF_HARNESS_DIR"), "/evsum_h.rs"));
}

pub(crate) mod codec {
    include!(concat!(env!("VERIF_HARNESS_DIR"), "/codec_h.rs"));
}
