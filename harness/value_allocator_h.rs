// Child module of src/mqtt/common/value_allocator.rs (sees the private `pool`).
// C20: the allocator refines a plain set of free integers. Inductive step from an
// arbitrary valid pre-state + base case + short histories at u8.
#[allow(unused_imports)]
use super::*;

macro_rules! alloc_step {
    ($name:ident, $t:ty, $wide:ty, $nmax:expr, $unw:expr) => {
        #[kani::proof]
        #[kani::unwind($unw)]
        fn $name() {
            const N: usize = $nmax;
            let lowest: $t = kani::any();
            let highest: $t = kani::any();
            kani::assume(lowest <= highest);
            let n: usize = kani::any();
            kani::assume(n <= N);
            let ivs: [($t, $t); N] = kani::any();
            // representation invariant: in range, sorted, disjoint, not adjacent
            let mut i = 0;
            while i < n {
                kani::assume(lowest <= ivs[i].0 && ivs[i].0 <= ivs[i].1 && ivs[i].1 <= highest);
                if i > 0 {
                    kani::assume((ivs[i - 1].1 as $wide) + 1 < ivs[i].0 as $wide);
                }
                i += 1;
            }
            let free = |q: $t| -> bool {
                let mut r = false;
                let mut i = 0;
                while i < n {
                    if ivs[i].0 <= q && q <= ivs[i].1 {
                        r = true;
                    }
                    i += 1;
                }
                r
            };
            let mut a = ValueAllocator::<$t> {
                pool: BTreeSet::new(),
                lowest,
                highest,
            };
            let mut i = 0;
            while i < n {
                a.pool.insert(ValueInterval::new_range(ivs[i].0, ivs[i].1));
                i += 1;
            }
            assert!(a.interval_count() == n, "[C20] pre-state construction");
            let q: $t = kani::any(); // universal probe
            let in_range = lowest <= q && q <= highest;
            let was_free = free(q);
            // query: used  <=>  in range and not free
            assert!(a.is_used(q) == (in_range && !was_free), "[C20] is_used(q) == in range and not free");
            let op: u8 = kani::any();
            kani::assume(op <= 4);
            let x: $t = kani::any();
            let mut expect_free_q = was_free;
            if op == 0 {
                let r = a.allocate();
                kani::cover!(r.is_none(), "allocate on empty pool");
                kani::cover!(r.is_some(), "allocate returns a value");
                if n == 0 {
                    assert!(r.is_none(), "[C20] allocate on empty pool returns None");
                } else {
                    assert!(r == Some(ivs[0].0), "[C20] allocate returns the smallest free value");
                    expect_free_q = was_free && q != ivs[0].0;
                }
            } else if op == 1 {
                let r = a.first_vacant();
                if n == 0 {
                    assert!(r.is_none(), "[C20] first_vacant on empty pool");
                } else {
                    assert!(r == Some(ivs[0].0), "[C20] first_vacant is the smallest free value");
                }
            } else if op == 2 {
                let r = a.use_value(x);
                kani::cover!(r, "use_value succeeds");
                kani::cover!(!r, "use_value refused");
                assert!(r == free(x), "[C20] use_value succeeds exactly for free values");
                expect_free_q = was_free && q != x;
            } else if op == 3 {
                kani::assume(lowest <= x && x <= highest && !free(x));
                a.deallocate(x);
                expect_free_q = was_free || q == x;
            } else {
                a.clear();
                expect_free_q = in_range;
            }
            assert!(
                a.is_used(q) == (in_range && !expect_free_q),
                "[C20] post-state equals the set model at probe q"
            );
            // representation invariant preserved (sorted, disjoint, maximally merged)
            let mut prev: Option<$t> = None;
            let mut cnt = 0usize;
            for iv in a.pool.iter() {
                assert!(
                    lowest <= iv.low && iv.low <= iv.high && iv.high <= highest,
                    "[C20] interval inside range"
                );
                if let Some(p) = prev {
                    assert!((p as $wide) + 1 < iv.low as $wide, "[C20] intervals sorted, disjoint, not adjacent");
                }
                prev = Some(iv.high);
                cnt += 1;
            }
            assert!(cnt == a.interval_count(), "[C20] interval_count");
            kani::cover!(cnt == N + 1, "pool grew by a split");
            kani::cover!(n == N && cnt == N - 1, "two runs merged");
            core::mem::forget(a);
        }
    };
}

alloc_step!(c20_step_u16_n3, u16, u32, 3, 8);
alloc_step!(c20_step_u32_n3, u32, u64, 3, 8);
alloc_step!(c20_step_u16_n4, u16, u32, 4, 9);
alloc_step!(c20_step_u32_n4, u32, u64, 4, 9);

// base case: new(lowest, highest) is the full free set
#[kani::proof]
#[kani::unwind(4)]
fn c20_base_new_u16() {
    let lowest: u16 = kani::any();
    let highest: u16 = kani::any();
    kani::assume(lowest <= highest);
    let a = ValueAllocator::<u16>::new(lowest, highest);
    let q: u16 = kani::any();
    let in_range = lowest <= q && q <= highest;
    kani::cover!(lowest == highest, "single-value range");
    kani::cover!(highest == u16::MAX, "range ends at type max");
    kani::cover!(!in_range, "probe outside range");
    assert!(!a.is_used(q), "[C20] nothing is used after new (in or out of range)");
    assert!(a.interval_count() == 1, "[C20] new has one run");
    assert!(a.first_vacant() == Some(lowest), "[C20] first vacant after new");
    core::mem::forget(a);
}

#[kani::proof]
#[kani::unwind(4)]
fn c20_base_new_u32() {
    let lowest: u32 = kani::any();
    let highest: u32 = kani::any();
    kani::assume(lowest <= highest);
    let a = ValueAllocator::<u32>::new(lowest, highest);
    let q: u32 = kani::any();
    assert!(!a.is_used(q), "[C20] nothing is used after new (in or out of range)");
    assert!(a.interval_count() == 1, "[C20] new has one run");
    assert!(a.first_vacant() == Some(lowest), "[C20] first vacant after new");
    core::mem::forget(a);
}

// short histories from new() at u8 against a bitmap model; reachability witnesses
// for the pre-state shapes the step harness assumes.
#[kani::proof]
#[kani::unwind(8)]
fn c20_hist_u8_ops3() {
    let lowest: u8 = kani::any();
    let highest: u8 = kani::any();
    kani::assume(lowest <= highest);
    let mut a = ValueAllocator::<u8>::new(lowest, highest);
    // model: `free` predicate tracked for one universal probe q plus the minimum via the implementation-independent rule
    let q: u8 = kani::any();
    let in_range = lowest <= q && q <= highest;
    let mut q_free = in_range;
    let mut step = 0;
    while step < 3 {
        let op: u8 = kani::any();
        kani::assume(op <= 3);
        let x: u8 = kani::any();
        if op == 0 {
            let before_used_q = a.is_used(q);
            let r = a.allocate();
            if let Some(v) = r {
                assert!(lowest <= v && v <= highest, "[C20] allocated value in range");
                if v == q {
                    assert!(!before_used_q && q_free, "[C20] allocate returns a free value");
                    q_free = false;
                } else if q_free {
                    assert!(v < q, "[C20] allocate returns the smallest free value");
                }
            } else {
                assert!(!q_free, "[C20] allocate fails only when nothing is free");
            }
        } else if op == 1 {
            let r = a.use_value(x);
            if x == q {
                assert!(r == q_free, "[C20] use_value succeeds exactly for free values");
                if r {
                    q_free = false;
                }
            }
        } else if op == 2 {
            kani::assume(lowest <= x && x <= highest && a.is_used(x));
            a.deallocate(x);
            if x == q {
                q_free = true;
            }
        } else {
            a.clear();
            q_free = in_range;
        }
        assert!(a.is_used(q) == (in_range && !q_free), "[C20] history: is_used matches the set model");
        step += 1;
    }
    kani::cover!(a.interval_count() == 3, "three runs reached from new()");
    kani::cover!(a.interval_count() == 0, "pool empty reached from new()");
    core::mem::forget(a);
}

/// allocator over [lowest, highest] whose free pool is the given runs (used by other child modules)
pub(crate) fn mk_alloc_u16(lowest: u16, highest: u16, ivs: &[(u16, u16)]) -> ValueAllocator<u16> {
    let mut a = ValueAllocator::<u16> { pool: BTreeSet::new(), lowest, highest };
    let mut i = 0;
    while i < ivs.len() {
        a.pool.insert(ValueInterval::new_range(ivs[i].0, ivs[i].1));
        i += 1;
    }
    a
}
