// Child module of src/mqtt/connection/packet_builder.rs (private builder fields visible).
// C09 framing harnesses (F1 header phase at full width, F2 all cuttings of bounded streams,
// F3 over-long Remaining Length), plus a RawPacket constructor for core.rs receive steps.
#[allow(unused_imports)]
use super::*;

pub(crate) fn verif_raw(fixed_header: u8, body: &[u8]) -> RawPacket {
    let data = if (fixed_header & 0xF0) == 0x30 {
        PacketData::Publish(Arc::from(body))
    } else {
        PacketData::Normal(body.to_vec())
    };
    RawPacket { fixed_header, data }
}

pub(crate) fn is_fresh(b: &PacketBuilder) -> bool {
    b.state == ReadState::FixedHeader
        && b.header_buf.is_empty()
        && b.remaining_length == 0
        && b.multiplier == 1
        && b.raw_buf.is_none()
        && b.raw_buf_offset == 0
}

/// install a half-received frame (used by the C10 harness in core.rs): fixed header seen, k length bytes pending
pub(crate) fn make_partial(b: &mut PacketBuilder, h: u8, l0: u8) {
    b.state = ReadState::RemainingLength;
    b.header_buf.push(h);
    b.header_buf.push(l0 | 0x80);
    b.remaining_length = (l0 & 0x7f) as usize;
    b.multiplier = 128;
}

fn same_state(a: &PacketBuilder, b: &PacketBuilder) -> bool {
    if !(a.state == b.state
        && a.remaining_length == b.remaining_length
        && a.multiplier == b.multiplier
        && a.raw_buf_offset == b.raw_buf_offset
        && a.header_buf.len() == b.header_buf.len()
        && a.raw_buf.is_some() == b.raw_buf.is_some())
    {
        return false;
    }
    let mut i = 0;
    while i < a.header_buf.len() {
        if a.header_buf[i] != b.header_buf[i] {
            return false;
        }
        i += 1;
    }
    if let (Some(x), Some(y)) = (a.raw_buf.as_ref(), b.raw_buf.as_ref()) {
        if x.len() != y.len() {
            return false;
        }
        let mut i = 0;
        while i < x.len() {
            if x[i] != y[i] {
                return false;
            }
            i += 1;
        }
    }
    true
}

// ------------------------------------------------------------------ F1: header phase, full width
// Reference framing of a byte string, written from the MQTT specification (2.2.3 / 2.1.4):
// returns (kind, consumed, header, data_start, data_len); kind 0 = complete, 1 = incomplete, 2 = error
fn ref_frame(b: &[u8], p: usize) -> (u8, usize, u8, usize, usize) {
    let n = b.len();
    if p >= n {
        return (1, 0, 0, 0, 0);
    }
    let h = b[p];
    let mut val: usize = 0;
    let mut mult: usize = 1;
    let mut k = 0;
    loop {
        if p + 1 + k >= n {
            return (1, n - p, h, 0, 0);
        }
        let e = b[p + 1 + k];
        if k == 3 && (e & 0x80) != 0 {
            return (2, 5, h, 0, 0);
        }
        val += ((e & 0x7f) as usize) * mult;
        mult *= 128;
        k += 1;
        if e & 0x80 == 0 {
            break;
        }
    }
    let ds = p + 1 + k;
    if ds + val <= n {
        (0, 1 + k + val, h, ds, val)
    } else {
        (1, n - p, h, 0, 0)
    }
}

fn f1_run<const N: usize>() {
    let b: [u8; N] = kani::any();
    let mut pb = PacketBuilder::new();
    let mut cur = Cursor::new(&b[..]);
    let mut p = 0usize;
    let mut calls = 0;
    while p < N {
        let r = pb.feed(&mut cur);
        let (kind, consumed, h, ds, dl) = ref_frame(&b, p);
        let newp = cur.position() as usize;
        assert!(newp == p + consumed, "[C09] a call consumes exactly the bytes of one frame (or the rest when incomplete)");
        match r {
            PacketBuildResult::Complete(raw) => {
                kani::cover!(dl > 0, "complete frame with payload");
                kani::cover!(p > 0, "second frame in the same buffer");
                assert!(kind == 0, "[C09] complete exactly when the reference framing completes");
                assert!(raw.fixed_header == h, "[C09] fixed header byte preserved");
                let d = raw.data_as_slice();
                assert!(d.len() == dl, "[C09] payload length equals the Remaining Length value");
                let mut i = 0;
                while i < dl {
                    assert!(d[i] == b[ds + i], "[C09] payload bytes neither lost, duplicated nor reordered");
                    i += 1;
                }
                assert!(is_fresh(&pb), "[C09] builder reset after a complete frame");
                core::mem::forget(raw);
            }
            PacketBuildResult::Incomplete => {
                assert!(kind == 1, "[C09] incomplete exactly when the reference framing is incomplete");
                assert!(newp == N, "[C09] incomplete consumes the whole buffer");
            }
            PacketBuildResult::Error(_) => {
                kani::cover!(true, "over-long Remaining Length rejected");
                assert!(kind == 2, "[C09] error exactly for a fifth length byte");
                assert!(is_fresh(&pb), "[C09] builder reset after a framing error");
            }
        }
        p = newp;
        calls += 1;
    }
    kani::cover!(calls >= 2, "more than one call needed");
    core::mem::forget(pb);
}

#[kani::proof]
#[kani::unwind(5)]
fn c09_f1_n2() {
    f1_run::<2>()
}
#[kani::proof]
#[kani::unwind(6)]
fn c09_f1_n3() {
    f1_run::<3>()
}
#[kani::proof]
#[kani::unwind(7)]
fn c09_f1_n4() {
    f1_run::<4>()
}

// value of the accumulated Remaining Length when the header is complete but no payload byte is available
#[kani::proof]
#[kani::unwind(7)]
fn c09_f1_header_value() {
    let b: [u8; 5] = kani::any();
    let k: usize = kani::any(); // number of length bytes
    kani::assume(k >= 1 && k <= 4);
    let mut i = 1;
    let mut val: usize = 0;
    let mut mult: usize = 1;
    while i <= k {
        if i < k {
            kani::assume(b[i] & 0x80 != 0);
        } else {
            kani::assume(b[i] & 0x80 == 0);
        }
        val += ((b[i] & 0x7f) as usize) * mult;
        mult *= 128;
        i += 1;
    }
    kani::assume(val > 0);
    let mut pb = PacketBuilder::new();
    let mut cur = Cursor::new(&b[..k + 1]);
    let r = pb.feed(&mut cur);
    assert!(matches!(r, PacketBuildResult::Incomplete), "[C09] header without payload is incomplete");
    assert!(cur.position() as usize == k + 1, "[C09] header bytes consumed");
    assert!(pb.remaining_length == val, "[C09] Remaining Length equals the value of the 1-4 byte encoding (also non-minimal)");
    assert!(val <= 268_435_455, "[C14] framing never yields more than the 4-byte maximum");
    assert!(pb.state == ReadState::Payload, "[C09] payload phase entered");
    kani::cover!(k == 4 && val == 268_435_455, "maximum Remaining Length");
    kani::cover!(k == 2 && val < 128, "non-minimal two-byte encoding");
    core::mem::forget(pb);
    core::mem::forget(r);
}

// ------------------------------------------------------------------ F3: a length that would need a fifth byte
fn f3_case(b: &[u8; 8], cutpos: usize) {
    let mut pb = PacketBuilder::new();
    if cutpos < 5 {
        let mut c0 = Cursor::new(&b[..cutpos]);
        let r0 = pb.feed(&mut c0);
        assert!(matches!(r0, PacketBuildResult::Incomplete), "[C09] no error while fewer than four continuation bytes were seen");
        assert!(c0.position() as usize == cutpos, "[C09] partial header consumed");
        core::mem::forget(r0);
    }
    let start = if cutpos < 5 { cutpos } else { 0 };
    let mut cur = Cursor::new(&b[start..]);
    let r = pb.feed(&mut cur);
    assert!(matches!(r, PacketBuildResult::Error(MqttError::MalformedPacket)), "[C09] fifth length byte is a MalformedPacket framing error");
    assert!(cur.position() as usize == 5 - start, "[C09] the error consumes exactly the five header bytes");
    assert!(is_fresh(&pb), "[C09] builder equals new() after the error");
    let r2 = pb.feed(&mut cur);
    match r2 {
        PacketBuildResult::Complete(raw) => {
            assert!(raw.fixed_header == b[5], "[C09] framing resumes at the next byte");
            let d = raw.data_as_slice();
            assert!(d.len() == 1 && d[0] == b[7], "[C09] frame after the error is intact");
            core::mem::forget(raw);
        }
        _ => {
            assert!(false, "[C09] frame following a framing error is parsed normally");
        }
    }
    core::mem::forget(pb);
    core::mem::forget(r);
}

fn f3_harness(cutpos: usize) {
    let x: [u8; 8] = kani::any();
    // fixed header, four continuation bytes, then a small valid frame [h2, 1, d].
    // The length bytes are concrete (three patterns): with symbolic low bits the symbolic executor cannot
    // see that the continuation bit is set and explores a payload allocation of symbolic size.
    let b: [u8; 8] = [x[0], 0xFF, 0xFF, 0xFF, 0xFF, x[5], 1, x[7]];
    f3_case(&b, cutpos);
    let b: [u8; 8] = [x[0], 0x80, 0x80, 0x80, 0x80, x[5], 1, x[7]];
    f3_case(&b, cutpos);
    let b: [u8; 8] = [x[0], 0x81, 0xFE, 0x80, 0xC3, x[5], 1, x[7]];
    f3_case(&b, cutpos);
}
// the error frame may itself arrive in two pieces: one harness per cut position (5 = in one piece)
#[kani::proof]
#[kani::unwind(8)]
fn c09_f3_overlong_rl_cut1() {
    f3_harness(1)
}
#[kani::proof]
#[kani::unwind(8)]
fn c09_f3_overlong_rl_cut2() {
    f3_harness(2)
}
#[kani::proof]
#[kani::unwind(8)]
fn c09_f3_overlong_rl_cut3() {
    f3_harness(3)
}
#[kani::proof]
#[kani::unwind(8)]
fn c09_f3_overlong_rl_cut4() {
    f3_harness(4)
}
#[kani::proof]
#[kani::unwind(8)]
fn c09_f3_overlong_rl_cut5() {
    f3_harness(5)
}

// ------------------------------------------------------------------ F2: all cuttings of bounded streams
// A stream shape is a concrete list of frames (length bytes concrete, everything else symbolic).
// For every partition of the stream into <=3 chunks and for byte-at-a-time feeding the sequence of
// non-Incomplete results, the cumulative position and the final builder state must equal those of
// feeding the stream one whole frame at a time.

struct Exp {
    // expected frames: (offset of header byte, offset of data, data len, is_error)
    f: [(usize, usize, usize, bool); 4],
    n: usize,
    // bytes of a trailing partial frame (0 = stream ends on a frame boundary)
    tail: usize,
}

fn feed_chunks<const L: usize>(s: &[u8; L], cuts: &[usize], exp: &Exp, whole: &PacketBuilder) {
    // cuts: ascending chunk end offsets, last == L
    let mut pb = PacketBuilder::new();
    let mut got = 0usize;
    let mut start = 0usize;
    let mut ci = 0;
    while ci < cuts.len() {
        let end = cuts[ci];
        let mut cur = Cursor::new(&s[start..end]);
        let mut guard = 0;
        while (cur.position() as usize) < end - start {
            let before = cur.position();
            let r = pb.feed(&mut cur);
            match r {
                PacketBuildResult::Complete(raw) => {
                    assert!(got < exp.n, "[C09] no extra frame produced by chunking");
                    let (ho, dof, dl, is_err) = exp.f[got];
                    assert!(!is_err, "[C09] same result kind as whole-frame feeding");
                    assert!(raw.fixed_header == s[ho], "[C09] fixed header identical under chunking");
                    let d = raw.data_as_slice();
                    assert!(d.len() == dl, "[C09] payload length identical under chunking");
                    let mut i = 0;
                    while i < dl {
                        assert!(d[i] == s[dof + i], "[C09] payload bytes identical under chunking");
                        i += 1;
                    }
                    // at most one frame per call: the cursor stops on the frame boundary
                    assert!(start + cur.position() as usize == dof + dl, "[C09] a call stops at the frame boundary");
                    got += 1;
                    core::mem::forget(raw);
                }
                PacketBuildResult::Error(_) => {
                    assert!(got < exp.n, "[C09] no extra error produced by chunking");
                    let (ho, _dof, _dl, is_err) = exp.f[got];
                    assert!(is_err, "[C09] same result kind as whole-frame feeding");
                    assert!(start + cur.position() as usize == ho + 5, "[C09] error consumes five bytes");
                    got += 1;
                }
                PacketBuildResult::Incomplete => {
                    assert!(cur.position() as usize == end - start, "[C09] incomplete consumes the chunk");
                }
            }
            assert!(cur.position() > before, "[C09] every call on a non-empty buffer makes progress");
            guard += 1;
            assert!(guard <= L, "[C09] bounded number of calls");
        }
        start = end;
        ci += 1;
    }
    assert!(got == exp.n, "[C09] every frame delivered exactly once under chunking");
    assert!(same_state(&pb, whole), "[C09] final builder state independent of chunking");
    core::mem::forget(pb);
}

fn all_cuttings<const L: usize>(s: &[u8; L], exp: &Exp) {
    // reference: whole-frame feeding (one frame per buffer, then the tail)
    let mut whole = PacketBuilder::new();
    let mut i = 0;
    let mut off = 0;
    while i < exp.n {
        let (ho, dof, dl, is_err) = exp.f[i];
        let end = if is_err { ho + 5 } else { dof + dl };
        let mut cur = Cursor::new(&s[ho..end]);
        let r = whole.feed(&mut cur);
        if is_err {
            assert!(matches!(r, PacketBuildResult::Error(_)), "[C09] reference feeding: error frame");
        } else {
            assert!(matches!(r, PacketBuildResult::Complete(_)), "[C09] reference feeding: complete frame");
        }
        assert!(cur.position() as usize == end - ho, "[C09] reference feeding consumes the frame");
        core::mem::forget(r);
        off = end;
        i += 1;
    }
    if exp.tail > 0 {
        let mut cur = Cursor::new(&s[off..]);
        let r = whole.feed(&mut cur);
        assert!(matches!(r, PacketBuildResult::Incomplete), "[C09] reference feeding: partial tail");
        core::mem::forget(r);
    }
    // 1 chunk
    feed_chunks(s, &[L], exp, &whole);
    // 2 chunks
    let mut a = 1;
    while a < L {
        feed_chunks(s, &[a, L], exp, &whole);
        a += 1;
    }
    // 3 chunks
    let mut a = 1;
    while a < L {
        let mut b = a + 1;
        while b < L {
            feed_chunks(s, &[a, b, L], exp, &whole);
            b += 1;
        }
        a += 1;
    }
    // byte at a time
    let mut cuts = [0usize; L];
    let mut k = 0;
    while k < L {
        cuts[k] = k + 1;
        k += 1;
    }
    feed_chunks(s, &cuts, exp, &whole);
    core::mem::forget(whole);
}

// S1: [h,0] [h,1,d] [h,2,d,d]  (minimal one-byte lengths, 9 bytes, 3 frames)
#[kani::proof]
#[kani::unwind(12)]
fn c09_f2_s1_three_frames() {
    let x: [u8; 9] = kani::any();
    let s: [u8; 9] = [x[0], 0, x[2], 1, x[4], x[5], 2, x[7], x[8]];
    let exp = Exp { f: [(0, 2, 0, false), (2, 4, 1, false), (5, 7, 2, false), (0, 0, 0, false)], n: 3, tail: 0 };
    all_cuttings(&s, &exp);
}

// S2: non-minimal encodings: [h,0x80,0x00] (RL 0 in two bytes) [h,0x81,0x00,d] (RL 1 in two bytes)
#[kani::proof]
#[kani::unwind(10)]
fn c09_f2_s2_nonminimal() {
    let x: [u8; 7] = kani::any();
    let s: [u8; 7] = [x[0], 0x80, 0x00, x[3], 0x81, 0x00, x[6]];
    let exp = Exp { f: [(0, 3, 0, false), (3, 6, 1, false), (0, 0, 0, false), (0, 0, 0, false)], n: 2, tail: 0 };
    all_cuttings(&s, &exp);
}

// S3: RL 3 encoded in four bytes [h,0x83,0x80,0x80,0x00,d,d,d]
#[kani::proof]
#[kani::unwind(11)]
fn c09_f2_s3_four_byte_len() {
    let x: [u8; 8] = kani::any();
    let s: [u8; 8] = [x[0], 0x83, 0x80, 0x80, 0x00, x[5], x[6], x[7]];
    let exp = Exp { f: [(0, 5, 3, false), (0, 0, 0, false), (0, 0, 0, false), (0, 0, 0, false)], n: 1, tail: 0 };
    all_cuttings(&s, &exp);
}

// S4: over-long length then a valid frame: [h,c,c,c,c] [h,1,d]
#[kani::proof]
#[kani::unwind(11)]
fn c09_f2_s4_error_then_frame() {
    let x: [u8; 8] = kani::any();
    let s: [u8; 8] = [x[0], 0x81, 0xFE, 0x80, 0xC3, x[5], 1, x[7]];
    let exp = Exp { f: [(0, 0, 0, true), (5, 7, 1, false), (0, 0, 0, false), (0, 0, 0, false)], n: 2, tail: 0 };
    all_cuttings(&s, &exp);
}

// S5: a complete frame followed by a partial one: [h,1,d] [h,3,d]  (tail of 3 bytes)
#[kani::proof]
#[kani::unwind(9)]
fn c09_f2_s5_partial_tail() {
    let x: [u8; 6] = kani::any();
    let s: [u8; 6] = [x[0], 1, x[2], x[3], 3, x[5]];
    let exp = Exp { f: [(0, 2, 1, false), (0, 0, 0, false), (0, 0, 0, false), (0, 0, 0, false)], n: 1, tail: 3 };
    all_cuttings(&s, &exp);
}

// S6: three-byte length, RL 2: [h,0x82,0x80,0x00,d,d] [h,0]
#[kani::proof]
#[kani::unwind(11)]
fn c09_f2_s6_three_byte_len() {
    let x: [u8; 8] = kani::any();
    let s: [u8; 8] = [x[0], 0x82, 0x80, 0x00, x[4], x[5], x[6], 0];
    let exp = Exp { f: [(0, 4, 2, false), (6, 8, 0, false), (0, 0, 0, false), (0, 0, 0, false)], n: 2, tail: 0 };
    all_cuttings(&s, &exp);
}
