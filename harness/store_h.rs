// Child module of src/mqtt/connection/store.rs: by-reference observers of the private map
// (never clone packets in a harness: DESIGN R9).
#[allow(unused_imports)]
use super::*;
use crate::mqtt::packet::Qos;

pub(crate) fn len<P: IsPacketId>(s: &GenericStore<P>) -> usize {
    s.map.len()
}

pub(crate) fn has<P: IsPacketId>(s: &GenericStore<P>, id: P) -> bool {
    s.map.contains_key(&id)
}

/// id of the i-th stored packet in store order
pub(crate) fn id_at<P: IsPacketId>(s: &GenericStore<P>, i: usize) -> Option<P> {
    let mut k = 0;
    for id in s.map.keys() {
        if k == i {
            return Some(*id);
        }
        k += 1;
    }
    None
}

/// (kind, dup, topic_empty, has_alias) of the stored packet with this id; kind: 1 = QoS1 PUBLISH, 2 = QoS2 PUBLISH, 3 = PUBREL
pub(crate) fn info<P: IsPacketId>(s: &GenericStore<P>, id: P) -> Option<(u8, bool, bool, bool)> {
    let p = s.map.get(&id)?;
    Some(match p {
        GenericStorePacket::V3_1_1Publish(p) => (if p.qos() == Qos::ExactlyOnce { 2 } else { 1 }, p.dup(), p.topic_name().is_empty(), false),
        GenericStorePacket::V5_0Publish(p) => {
            let mut alias = false;
            for pr in p.props().iter() {
                if matches!(pr, crate::mqtt::packet::Property::TopicAlias(_)) {
                    alias = true;
                }
            }
            (if p.qos() == Qos::ExactlyOnce { 2 } else { 1 }, p.dup(), p.topic_name().is_empty(), alias)
        }
        GenericStorePacket::V3_1_1Pubrel(_) => (3, false, false, false),
        GenericStorePacket::V5_0Pubrel(_) => (3, false, false, false),
    })
}
