// Child module of src/mqtt/connection/core.rs: single-step harnesses over GenericConnection from
// assigned, script-reachable pre-states (DESIGN 4). Private fields are read and written directly.
#[allow(unused_imports)]
use super::*;
use crate::mqtt::connection::packet_builder::verif_harness as pbh;
use crate::mqtt::connection::store::verif_harness as sth;
use crate::verif_harness::utf8_model;

type CC = GenericConnection<role::Client, u16>;
type SC = GenericConnection<role::Server, u16>;
type AC = GenericConnection<role::Any, u16>;
type E = GenericEvent<u16>;
type Ev = Vec<GenericEvent<u16>>;

// ------------------------------------------------------------------ event predicates (by reference)
fn is_send(e: &E) -> bool {
    matches!(e, GenericEvent::RequestSendPacket { .. })
}
fn is_close(e: &E) -> bool {
    matches!(e, GenericEvent::RequestClose)
}
fn is_recv(e: &E) -> bool {
    matches!(e, GenericEvent::NotifyPacketReceived(_))
}
fn is_any_err(e: &E) -> bool {
    matches!(e, GenericEvent::NotifyError(_))
}
fn is_err(e: &E, k: MqttError) -> bool {
    match e {
        GenericEvent::NotifyError(x) => *x == k,
        _ => false,
    }
}
fn is_reset(e: &E, k: TimerKind, ms: u64) -> bool {
    match e {
        GenericEvent::RequestTimerReset { kind, duration_ms } => *kind == k && *duration_ms == ms,
        _ => false,
    }
}
fn is_cancel(e: &E, k: TimerKind) -> bool {
    match e {
        GenericEvent::RequestTimerCancel(kind) => *kind == k,
        _ => false,
    }
}
fn is_released(e: &E, id: u16) -> bool {
    match e {
        GenericEvent::NotifyPacketIdReleased(x) => *x == id,
        _ => false,
    }
}
fn send_has_release(e: &E, id: Option<u16>) -> bool {
    match e {
        GenericEvent::RequestSendPacket { release_packet_id_if_send_error, .. } => *release_packet_id_if_send_error == id,
        _ => false,
    }
}

#[derive(Clone, Copy)]
struct Tm {
    send: bool,
    recv: bool,
    resp: bool,
}
fn tm_of<R: RoleType>(c: &GenericConnection<R, u16>) -> Tm {
    Tm { send: c.pingreq_send_set, recv: c.pingreq_recv_set, resp: c.pingresp_recv_set }
}

/// Monitor shared by all step harnesses (DESIGN 4.3): C19 order, C15 timer consistency.
/// `pre` are the timer flags before the call; returns the flags obtained by folding the event list.
fn monitor<R: RoleType>(pre: Tm, ev: &Ev, post: &GenericConnection<R, u16>) {
    let mut t = pre;
    let mut seen_close = false;
    let mut i = 0;
    let n = ev.len();
    assert!(n <= 8, "[C05] bounded event list");
    while i < n {
        match &ev[i] {
            GenericEvent::RequestSendPacket { .. } => {
                assert!(!seen_close, "[C19] no close request before a send request in the same list");
            }
            GenericEvent::RequestClose => {
                seen_close = true;
            }
            GenericEvent::RequestTimerReset { kind, duration_ms } => {
                assert!(*duration_ms > 0, "[C15] a timer is never armed with a zero duration");
                match kind {
                    TimerKind::PingreqSend => t.send = true,
                    TimerKind::PingreqRecv => t.recv = true,
                    TimerKind::PingrespRecv => t.resp = true,
                }
            }
            GenericEvent::RequestTimerCancel(kind) => match kind {
                TimerKind::PingreqSend => {
                    assert!(t.send, "[C15] cancel only for an armed timer (pingreq_send)");
                    t.send = false;
                }
                TimerKind::PingreqRecv => {
                    assert!(t.recv, "[C15] cancel only for an armed timer (pingreq_recv)");
                    t.recv = false;
                }
                TimerKind::PingrespRecv => {
                    assert!(t.resp, "[C15] cancel only for an armed timer (pingresp_recv)");
                    t.resp = false;
                }
            },
            _ => {}
        }
        i += 1;
    }
    assert!(
        post.pingreq_send_set == t.send && post.pingreq_recv_set == t.recv && post.pingresp_recv_set == t.resp,
        "[C15] armed-timer flags equal the fold of the requested timer events"
    );
    if post.status == ConnectionStatus::Disconnected {
        assert!(!t.send && !t.recv && !t.resp, "[C15] no timer remains armed while disconnected");
    }
}

fn count<F: Fn(&E) -> bool>(ev: &Ev, f: F) -> usize {
    let mut k = 0;
    let mut i = 0;
    while i < ev.len() {
        if f(&ev[i]) {
            k += 1;
        }
        i += 1;
    }
    k
}

/// interval the client's PINGREQ timer must use: override, then Server Keep Alive, then CONNECT keep-alive
fn prio_ms(user: Option<u64>, server: Option<u64>, ka: u64) -> u64 {
    match user {
        Some(u) => u,
        None => match server {
            Some(s) => s,
            None => ka,
        },
    }
}

// ------------------------------------------------------------------ pre-state families (assigned)
/// connected client: timer configuration symbolic
fn fam_client_connected(v: Version) -> CC {
    let mut c = CC::new(v);
    c.status = ConnectionStatus::Connected;
    c.is_client = true;
    let ka: u16 = kani::any();
    c.pingreq_keep_alive_ms = ka as u64 * 1000;
    c.pingreq_user_send_interval_ms = kani::any();
    if v == Version::V5_0 {
        let ska: Option<u16> = kani::any();
        c.pingreq_server_keep_alive_ms = ska.map(|x| x as u64 * 1000);
    }
    c.pingresp_recv_timeout_ms = kani::any();
    c.pingreq_send_set = kani::any();
    c.pingresp_recv_set = kani::any();
    c
}

/// connected server: receive-timeout configuration symbolic
fn fam_server_connected(v: Version) -> SC {
    let mut c = SC::new(v);
    c.status = ConnectionStatus::Connected;
    c.is_client = false;
    let ka: u16 = kani::any();
    c.pingreq_recv_timeout_ms = ka as u64 * 1000 * 3 / 2;
    c.pingreq_recv_set = kani::any();
    if ka == 0 {
        kani::assume(!c.pingreq_recv_set);
    }
    c
}

fn v311_or_v5(b: bool) -> Version {
    if b {
        Version::V5_0
    } else {
        Version::V3_1_1
    }
}

// =================================================================== A. timers, close ordering
// client sends PINGREQ (v3.1.1): response timer armed iff configured, PINGREQ timer re-armed by priority
#[kani::proof]
#[kani::unwind(7)]
fn st_send_pingreq_v311_client() {
    let mut c = fam_client_connected(Version::V3_1_1);
    let pre = tm_of(&c);
    let ms = prio_ms(c.pingreq_user_send_interval_ms, c.pingreq_server_keep_alive_ms, c.pingreq_keep_alive_ms);
    let rt = c.pingresp_recv_timeout_ms;
    kani::cover!(ms == 0 && rt == 0, "both timers disabled");
    kani::cover!(ms > 0 && rt > 0, "both timers armed");
    let ev = c.process_send_v3_1_1_pingreq(v3_1_1::Pingreq::new());
    monitor(pre, &ev, &c);
    assert!(ev.len() == 1 + (rt != 0) as usize + (ms != 0) as usize, "[C15] PINGREQ: exactly the send and the configured timer requests");
    assert!(is_send(&ev[0]), "[C11] PINGREQ passed to the transport when connected");
    if rt != 0 {
        assert!(is_reset(&ev[1], TimerKind::PingrespRecv, rt), "[C15] sent PINGREQ arms the response timer when configured");
    } else {
        assert!(c.pingresp_recv_set == pre.resp, "[C15] response timer untouched when not configured");
    }
    if ms != 0 {
        assert!(is_reset(&ev[ev.len() - 1], TimerKind::PingreqSend, ms), "[C15] client re-arms the PINGREQ timer with the interval chosen by priority");
    }
    core::mem::forget(ev);
    core::mem::forget(c);
}

#[kani::proof]
#[kani::unwind(7)]
fn st_send_pingreq_v5_client() {
    let mut c = fam_client_connected(Version::V5_0);
    let pre = tm_of(&c);
    let ms = prio_ms(c.pingreq_user_send_interval_ms, c.pingreq_server_keep_alive_ms, c.pingreq_keep_alive_ms);
    let rt = c.pingresp_recv_timeout_ms;
    kani::cover!(c.pingreq_user_send_interval_ms.is_none() && c.pingreq_server_keep_alive_ms == Some(0) && c.pingreq_keep_alive_ms > 0, "Server Keep Alive 0 overrides keep-alive");
    let ev = c.process_send_v5_0_pingreq(v5_0::Pingreq::new());
    monitor(pre, &ev, &c);
    assert!(ev.len() == 1 + (rt != 0) as usize + (ms != 0) as usize, "[C15] PINGREQ: exactly the send and the configured timer requests");
    assert!(is_send(&ev[0]), "[C11] PINGREQ passed to the transport when connected");
    if rt != 0 {
        assert!(is_reset(&ev[1], TimerKind::PingrespRecv, rt), "[C15] sent PINGREQ arms the response timer when configured");
    }
    if ms != 0 {
        assert!(is_reset(&ev[ev.len() - 1], TimerKind::PingreqSend, ms), "[C15] client re-arms the PINGREQ timer with the interval chosen by priority");
    }
    core::mem::forget(ev);
    core::mem::forget(c);
}

// DISCONNECT sent: armed timers cancelled (only those), then the packet, then the close request
#[kani::proof]
#[kani::unwind(7)]
fn st_send_disconnect_v311_client() {
    let mut c = fam_client_connected(Version::V3_1_1);
    let pre = tm_of(&c);
    kani::cover!(pre.send && pre.resp, "two timers armed");
    kani::cover!(!pre.send && !pre.resp, "no timer armed");
    let ev = c.process_send_v3_1_1_disconnect(v3_1_1::Disconnect::new());
    monitor(pre, &ev, &c);
    let n = ev.len();
    assert!(n == 2 + pre.send as usize + pre.resp as usize, "[C15] DISCONNECT: one cancel per armed timer, the packet, the close");
    assert!(is_send(&ev[n - 2]) && is_close(&ev[n - 1]), "[C19] DISCONNECT is followed by a close request in the same list");
    assert!(c.status == ConnectionStatus::Disconnected, "[C11] status disconnected after DISCONNECT");
    core::mem::forget(ev);
    core::mem::forget(c);
}

#[kani::proof]
#[kani::unwind(7)]
fn st_send_disconnect_v5_server() {
    let mut c = fam_server_connected(Version::V5_0);
    let pre = tm_of(&c);
    let rc: u8 = kani::any();
    let rc = match DisconnectReasonCode::try_from(rc) {
        Ok(r) => r,
        Err(_) => return,
    };
    let p = v5_0::Disconnect::builder().reason_code(rc).build().unwrap();
    let ev = c.process_send_v5_0_disconnect(p);
    monitor(pre, &ev, &c);
    let n = ev.len();
    assert!(n == 2 + pre.recv as usize, "[C15] DISCONNECT: one cancel per armed timer, the packet, the close");
    assert!(is_send(&ev[n - 2]) && is_close(&ev[n - 1]), "[C19] DISCONNECT is followed by a close request in the same list");
    assert!(c.status == ConnectionStatus::Disconnected, "[C11] status disconnected after DISCONNECT");
    core::mem::forget(ev);
    core::mem::forget(c);
}

// the three timer expiries on an established connection (fired only when armed)
#[kani::proof]
#[kani::unwind(7)]
fn st_timer_fired_v311_client() {
    let mut c = fam_client_connected(Version::V3_1_1);
    let k: u8 = kani::any();
    kani::assume(k <= 1);
    let kind = if k == 0 { TimerKind::PingreqSend } else { TimerKind::PingrespRecv };
    // contract: fired only when armed
    if k == 0 {
        kani::assume(c.pingreq_send_set);
    } else {
        kani::assume(c.pingresp_recv_set);
    }
    let mut pre = tm_of(&c);
    // the expiry itself disarms the timer
    if k == 0 {
        pre.send = false;
    } else {
        pre.resp = false;
    }
    let ev = c.notify_timer_fired(kind);
    monitor(pre, &ev, &c);
    if k == 0 {
        assert!(ev.len() >= 1 && is_send(&ev[0]), "[C15] PINGREQ timer expiry sends PINGREQ");
    } else {
        assert!(count(&ev, is_close) == 1, "[C19] keep-alive timeout on an established connection results in a close request");
    }
    core::mem::forget(ev);
    core::mem::forget(c);
}

#[kani::proof]
#[kani::unwind(7)]
fn st_timer_fired_v5_client_pingresp() {
    let mut c = fam_client_connected(Version::V5_0);
    kani::assume(c.pingresp_recv_set);
    let mut pre = tm_of(&c);
    pre.resp = false;
    let ev = c.notify_timer_fired(TimerKind::PingrespRecv);
    monitor(pre, &ev, &c);
    let n = ev.len();
    assert!(n >= 2 && is_send(&ev[n - 2]) && is_close(&ev[n - 1]), "[C15,C19] v5.0 PINGRESP timeout: DISCONNECT then close");
    match &ev[n - 2] {
        GenericEvent::RequestSendPacket { packet: GenericPacket::V5_0Disconnect(d), .. } => {
            assert!(d.reason_code() == Some(DisconnectReasonCode::KeepAliveTimeout), "[C15] DISCONNECT carries Keep Alive timeout");
        }
        _ => assert!(false, "[C15] v5.0 timeout sends DISCONNECT"),
    }
    core::mem::forget(ev);
    core::mem::forget(c);
}

#[kani::proof]
#[kani::unwind(7)]
fn st_timer_fired_server_pingreq_recv() {
    let v5: bool = kani::any();
    let mut c = fam_server_connected(v311_or_v5(v5));
    kani::assume(c.pingreq_recv_set);
    let mut pre = tm_of(&c);
    pre.recv = false;
    let ev = c.notify_timer_fired(TimerKind::PingreqRecv);
    monitor(pre, &ev, &c);
    let n = ev.len();
    assert!(count(&ev, is_close) == 1, "[C19] keep-alive timeout on an established connection results in a close request");
    if v5 {
        assert!(n == 2 && is_send(&ev[0]) && is_close(&ev[1]), "[C15] v5.0 keep-alive timeout: DISCONNECT then close");
    } else {
        assert!(n == 1, "[C15] v3.1.1 keep-alive timeout: close only");
    }
    core::mem::forget(ev);
    core::mem::forget(c);
}

// transport reported closed, from any status with symbolic leftovers
#[kani::proof]
#[kani::unwind(7)]
fn st_notify_closed_any() {
    let v5: bool = kani::any();
    let mut c = AC::new(v311_or_v5(v5));
    let st: u8 = kani::any();
    kani::assume(st <= 2);
    c.status = match st {
        0 => ConnectionStatus::Disconnected,
        1 => ConnectionStatus::Connecting,
        _ => ConnectionStatus::Connected,
    };
    c.is_client = kani::any();
    c.need_store = kani::any();
    c.pingreq_send_set = kani::any();
    c.pingreq_recv_set = kani::any();
    c.pingresp_recv_set = kani::any();
    if st == 0 {
        // a disconnected object holds no armed timer (the property under test keeps it so)
        kani::assume(!c.pingreq_send_set && !c.pingreq_recv_set && !c.pingresp_recv_set);
    }
    c.maximum_packet_size_send = kani::any();
    c.maximum_packet_size_recv = kani::any();
    c.topic_alias_send = if kani::any() { Some(TopicAliasSend::new(3)) } else { None };
    c.topic_alias_recv = if kani::any() { Some(TopicAliasRecv::new(3)) } else { None };
    // one pending subscribe id, one QoS1 id in flight, one handled QoS2 id
    let sid: u16 = kani::any();
    let pid: u16 = kani::any();
    let hid: u16 = kani::any();
    kani::assume(sid != 0 && pid != 0 && hid != 0 && sid != pid);
    c.pid_man.register_id(sid).unwrap();
    c.pid_suback.insert(sid);
    c.pid_man.register_id(pid).unwrap();
    c.pid_puback.insert(pid);
    c.qos2_publish_handled.insert(hid);
    // a partially received frame
    let part: bool = kani::any();
    if part {
        pbh::make_partial(&mut c.packet_builder, kani::any(), kani::any());
    }
    let need_store = c.need_store;
    let pre = tm_of(&c);
    let ev = c.notify_closed();
    monitor(pre, &ev, &c);
    assert!(c.status == ConnectionStatus::Disconnected, "[C10] closed");
    assert!(!c.pingreq_send_set && !c.pingreq_recv_set && !c.pingresp_recv_set, "[C15] after the transport is closed no timer remains armed");
    assert!(count(&ev, |e| matches!(e, GenericEvent::RequestTimerCancel(_))) == pre.send as usize + pre.recv as usize + pre.resp as usize, "[C15] exactly the armed timers are cancelled on close");
    assert!(c.topic_alias_send.is_none() && c.topic_alias_recv.is_none(), "[C13] alias bindings do not survive the connection");
    assert!(c.maximum_packet_size_send == MQTT_PACKET_SIZE_NO_LIMIT && c.maximum_packet_size_recv == MQTT_PACKET_SIZE_NO_LIMIT, "[C10] size limits reset on close");
    // identifiers
    assert!(c.pid_suback.len() == 0 && !c.pid_man.is_used_id(sid), "[C08] pending subscribe id released on close");
    assert!(count(&ev, |e| is_released(e, sid)) == 1, "[C08] release announced exactly once (subscribe id)");
    if need_store {
        assert!(c.pid_man.is_used_id(pid) && c.pid_puback.contains(&pid), "[C06] persistent session keeps in-flight publish ids over a close");
        assert!(count(&ev, |e| is_released(e, pid)) == 0, "[C08] no release announced for a held id");
        assert!(c.qos2_publish_handled.contains(&hid), "[C07] handled QoS2 ids survive a close of a persistent session");
    } else {
        assert!(!c.pid_man.is_used_id(pid) && c.pid_puback.len() == 0, "[C08] non-persistent in-flight ids released on close");
        assert!(count(&ev, |e| is_released(e, pid)) == 1, "[C08] release announced exactly once (publish id)");
        assert!(c.qos2_publish_handled.len() == 0, "[C07] handled ids dropped with a non-persistent session");
    }
    assert!(pbh::is_fresh(&c.packet_builder), "[C10] a partially received frame does not survive the close");
    core::mem::forget(ev);
    core::mem::forget(c);
}

// PINGRESP received by a client cancels the response timer iff armed
#[kani::proof]
#[kani::unwind(7)]
fn st_recv_pingresp_client() {
    let v5: bool = kani::any();
    let mut c = fam_client_connected(v311_or_v5(v5));
    let pre = tm_of(&c);
    let raw = pbh::verif_raw(0xD0, &[]);
    let ev = if v5 { c.process_recv_v5_0_pingresp(raw) } else { c.process_recv_v3_1_1_pingresp(raw) };
    monitor(pre, &ev, &c);
    assert!(!c.pingresp_recv_set, "[C15] PINGRESP cancels the response timer");
    assert!(ev.len() == 1 + pre.resp as usize && is_recv(&ev[ev.len() - 1]), "[C15] PINGRESP: cancel iff armed, then delivery");
    core::mem::forget(ev);
    core::mem::forget(c);
}
