// Child module of src/mqtt/connection/core.rs: single-step harnesses over GenericConnection from
// assigned, script-reachable pre-states (DESIGN 4). Private fields are read and written directly.
#[allow(unused_imports)]
use super::*;
use crate::mqtt::connection::packet_builder::verif_harness as pbh;
use crate::mqtt::connection::store::verif_harness as sth;
use crate::verif_harness::utf8_model;

type CC = GenericConnection<role::Client, u16>;
type SC = GenericConnection<role::Server, u16>;
type AC = GenericConnection<role::Any, u16>;
type E = GenericEvent<u16>;
type Ev = Vec<GenericEvent<u16>>;

// ------------------------------------------------------------------ event summaries and predicates
use crate::verif_harness::evsum::*;

/// summary of the i-th event: stored by the event-list model under the verification build,
/// computed from the real Vec<GenericEvent> under replay
#[cfg(feature = "verif-models")]
fn sm(ev: &Ev, i: usize) -> EvSum {
    ev.sum(i)
}
#[cfg(not(feature = "verif-models"))]
fn sm(ev: &Ev, i: usize) -> EvSum {
    summarize_event(&ev[i])
}

fn is_send(e: &EvSum) -> bool {
    e.kind == K_SEND
}
fn is_close(e: &EvSum) -> bool {
    e.kind == K_CLOSE
}
fn is_recv(e: &EvSum) -> bool {
    e.kind == K_RECV
}
fn is_any_err(e: &EvSum) -> bool {
    e.kind == K_ERR
}
fn is_err(e: &EvSum, k: MqttError) -> bool {
    e.kind == K_ERR && e.err == k as u16
}
fn is_reset(e: &EvSum, k: TimerKind, ms: u64) -> bool {
    e.kind == K_RESET && e.timer == timer_u8(k) && e.ms == ms
}
fn is_cancel(e: &EvSum, k: TimerKind) -> bool {
    e.kind == K_CANCEL && e.timer == timer_u8(k)
}
fn is_any_cancel(e: &EvSum) -> bool {
    e.kind == K_CANCEL
}
fn is_released(e: &EvSum, id: u16) -> bool {
    e.kind == K_RELEASED && e.id == id as u32
}
fn is_any_released(e: &EvSum) -> bool {
    e.kind == K_RELEASED
}
fn send_has_release(e: &EvSum, id: Option<u16>) -> bool {
    e.kind == K_SEND
        && match id {
            Some(x) => e.rel_some && e.rel == x as u32,
            None => !e.rel_some,
        }
}

#[derive(Clone, Copy)]
struct Tm {
    send: bool,
    recv: bool,
    resp: bool,
}
fn tm_of<R: RoleType>(c: &GenericConnection<R, u16>) -> Tm {
    Tm { send: c.pingreq_send_set, recv: c.pingreq_recv_set, resp: c.pingresp_recv_set }
}

/// Monitor shared by all step harnesses (DESIGN 4.3): C19 order, C15 timer consistency.
/// `pre` are the timer flags before the call; returns the flags obtained by folding the event list.
fn monitor<R: RoleType>(pre: Tm, ev: &Ev, post: &GenericConnection<R, u16>) {
    let mut t = pre;
    let mut seen_close = false;
    let mut i = 0;
    let n = ev.len();
    assert!(n <= 8, "[C05] bounded event list");
    while i < n {
        let e = sm(ev, i);
        if e.kind == K_SEND {
            assert!(!seen_close, "[C19] no close request before a send request in the same list");
        } else if e.kind == K_CLOSE {
            seen_close = true;
        } else if e.kind == K_RESET {
            assert!(e.ms > 0, "[C15] a timer is never armed with a zero duration");
            if e.timer == 0 {
                t.send = true;
            } else if e.timer == 1 {
                t.recv = true;
            } else {
                t.resp = true;
            }
        } else if e.kind == K_CANCEL {
            if e.timer == 0 {
                assert!(t.send, "[C15] cancel only for an armed timer (pingreq_send)");
                t.send = false;
            } else if e.timer == 1 {
                assert!(t.recv, "[C15] cancel only for an armed timer (pingreq_recv)");
                t.recv = false;
            } else {
                assert!(t.resp, "[C15] cancel only for an armed timer (pingresp_recv)");
                t.resp = false;
            }
        }
        i += 1;
    }
    assert!(
        post.pingreq_send_set == t.send && post.pingreq_recv_set == t.recv && post.pingresp_recv_set == t.resp,
        "[C15] armed-timer flags equal the fold of the requested timer events"
    );
    if post.status == ConnectionStatus::Disconnected {
        assert!(!t.send && !t.recv && !t.resp, "[C15] no timer remains armed while disconnected");
    }
}

fn count<F: Fn(&EvSum) -> bool>(ev: &Ev, f: F) -> usize {
    let mut k = 0;
    let mut i = 0;
    while i < ev.len() {
        if f(&sm(ev, i)) {
            k += 1;
        }
        i += 1;
    }
    k
}

/// interval the client's PINGREQ timer must use: override, then Server Keep Alive, then CONNECT keep-alive
fn prio_ms(user: Option<u64>, server: Option<u64>, ka: u64) -> u64 {
    match user {
        Some(u) => u,
        None => match server {
            Some(s) => s,
            None => ka,
        },
    }
}

// ------------------------------------------------------------------ pre-state families (assigned)
use crate::mqtt::connection::packet_id_manager::verif_harness as pidh;

/// the identifiers in `ids` (pairwise distinct, any order) are in use; restricted to interior,
/// pairwise non-adjacent values so that the allocator pre-state has a concrete shape (identifier 1,
/// 65535 and adjacent identifiers are covered by the allocator / PacketIdManager kernels)
fn use_ids<R: RoleType>(c: &mut GenericConnection<R, u16>, ids: &[u16]) {
    let n = ids.len();
    let mut s: [u16; 3] = [0; 3];
    let mut k = 0;
    while k < n {
        kani::assume(ids[k] > 1 && ids[k] < u16::MAX);
        s[k] = ids[k];
        k += 1;
    }
    // sort (n <= 3)
    if n >= 2 && s[0] > s[1] {
        s.swap(0, 1);
    }
    if n >= 3 {
        if s[1] > s[2] {
            s.swap(1, 2);
        }
        if s[0] > s[1] {
            s.swap(0, 1);
        }
    }
    let mut k = 1;
    while k < n {
        kani::assume(s[k - 1] as u32 + 1 < s[k] as u32);
        k += 1;
    }
    c.pid_man = pidh::mk_pidman(&s[..n]);
}

/// connected client: timer configuration symbolic
fn fam_client_connected(v: Version) -> CC {
    let mut c = CC::new(v);
    c.status = ConnectionStatus::Connected;
    c.is_client = true;
    let ka: u16 = kani::any();
    c.pingreq_keep_alive_ms = ka as u64 * 1000;
    c.pingreq_user_send_interval_ms = kani::any();
    if v == Version::V5_0 {
        let ska: Option<u16> = kani::any();
        c.pingreq_server_keep_alive_ms = ska.map(|x| x as u64 * 1000);
    }
    c.pingresp_recv_timeout_ms = kani::any();
    c.pingreq_send_set = kani::any();
    c.pingresp_recv_set = kani::any();
    c
}

/// connected server: receive-timeout configuration symbolic
fn fam_server_connected(v: Version) -> SC {
    let mut c = SC::new(v);
    c.status = ConnectionStatus::Connected;
    c.is_client = false;
    let ka: u16 = kani::any();
    c.pingreq_recv_timeout_ms = ka as u64 * 1000 * 3 / 2;
    c.pingreq_recv_set = kani::any();
    if ka == 0 {
        kani::assume(!c.pingreq_recv_set);
    }
    c
}

fn v311_or_v5(b: bool) -> Version {
    if b {
        Version::V5_0
    } else {
        Version::V3_1_1
    }
}

// =================================================================== A. timers, close ordering
// client sends PINGREQ (v3.1.1): response timer armed iff configured, PINGREQ timer re-armed by priority
#[kani::proof]
#[kani::unwind(2)]
fn st_send_pingreq_v311_client() {
    let mut c = fam_client_connected(Version::V3_1_1);
    let pre = tm_of(&c);
    let ms = prio_ms(c.pingreq_user_send_interval_ms, c.pingreq_server_keep_alive_ms, c.pingreq_keep_alive_ms);
    let rt = c.pingresp_recv_timeout_ms;
    kani::cover!(ms == 0 && rt == 0, "both timers disabled");
    kani::cover!(ms > 0 && rt > 0, "both timers armed");
    let ev = c.process_send_v3_1_1_pingreq(v3_1_1::Pingreq::new());
    monitor(pre, &ev, &c);
    assert!(ev.len() == 1 + (rt != 0) as usize + (ms != 0) as usize, "[C15] PINGREQ: exactly the send and the configured timer requests");
    assert!(is_send(&sm(&ev, 0)), "[C11] PINGREQ passed to the transport when connected");
    if rt != 0 {
        assert!(is_reset(&sm(&ev, 1), TimerKind::PingrespRecv, rt), "[C15] sent PINGREQ arms the response timer when configured");
    } else {
        assert!(c.pingresp_recv_set == pre.resp, "[C15] response timer untouched when not configured");
    }
    if ms != 0 {
        assert!(is_reset(&sm(&ev, ev.len() - 1), TimerKind::PingreqSend, ms), "[C15] client re-arms the PINGREQ timer with the interval chosen by priority");
    }
    core::mem::forget(ev);
    core::mem::forget(c);
}

#[kani::proof]
#[kani::unwind(2)]
fn st_send_pingreq_v5_client() {
    let mut c = fam_client_connected(Version::V5_0);
    let pre = tm_of(&c);
    let ms = prio_ms(c.pingreq_user_send_interval_ms, c.pingreq_server_keep_alive_ms, c.pingreq_keep_alive_ms);
    let rt = c.pingresp_recv_timeout_ms;
    kani::cover!(c.pingreq_user_send_interval_ms.is_none() && c.pingreq_server_keep_alive_ms == Some(0) && c.pingreq_keep_alive_ms > 0, "Server Keep Alive 0 overrides keep-alive");
    let ev = c.process_send_v5_0_pingreq(v5_0::Pingreq::new());
    monitor(pre, &ev, &c);
    assert!(ev.len() == 1 + (rt != 0) as usize + (ms != 0) as usize, "[C15] PINGREQ: exactly the send and the configured timer requests");
    assert!(is_send(&sm(&ev, 0)), "[C11] PINGREQ passed to the transport when connected");
    if rt != 0 {
        assert!(is_reset(&sm(&ev, 1), TimerKind::PingrespRecv, rt), "[C15] sent PINGREQ arms the response timer when configured");
    }
    if ms != 0 {
        assert!(is_reset(&sm(&ev, ev.len() - 1), TimerKind::PingreqSend, ms), "[C15] client re-arms the PINGREQ timer with the interval chosen by priority");
    }
    core::mem::forget(ev);
    core::mem::forget(c);
}

// DISCONNECT sent: armed timers cancelled (only those), then the packet, then the close request
#[kani::proof]
#[kani::unwind(2)]
fn st_send_disconnect_v311_client() {
    let mut c = fam_client_connected(Version::V3_1_1);
    let pre = tm_of(&c);
    kani::cover!(pre.send && pre.resp, "two timers armed");
    kani::cover!(!pre.send && !pre.resp, "no timer armed");
    let ev = c.process_send_v3_1_1_disconnect(v3_1_1::Disconnect::new());
    monitor(pre, &ev, &c);
    let n = ev.len();
    assert!(n == 2 + pre.send as usize + pre.resp as usize, "[C15] DISCONNECT: one cancel per armed timer, the packet, the close");
    assert!(is_send(&sm(&ev, n - 2)) && is_close(&sm(&ev, n - 1)), "[C19] DISCONNECT is followed by a close request in the same list");
    assert!(c.status == ConnectionStatus::Disconnected, "[C11] status disconnected after DISCONNECT");
    core::mem::forget(ev);
    core::mem::forget(c);
}

#[kani::proof]
#[kani::unwind(2)]
fn st_send_disconnect_v5_server() {
    let mut c = fam_server_connected(Version::V5_0);
    let pre = tm_of(&c);
    let rc: u8 = kani::any();
    kani::assume(DisconnectReasonCode::try_from(rc).is_ok());
    let rc = DisconnectReasonCode::try_from(rc).unwrap();
    let p = v5_0::Disconnect::builder().reason_code(rc).build().unwrap();
    let ev = c.process_send_v5_0_disconnect(p);
    monitor(pre, &ev, &c);
    let n = ev.len();
    assert!(n == 2 + pre.recv as usize, "[C15] DISCONNECT: one cancel per armed timer, the packet, the close");
    assert!(is_send(&sm(&ev, n - 2)) && is_close(&sm(&ev, n - 1)), "[C19] DISCONNECT is followed by a close request in the same list");
    assert!(c.status == ConnectionStatus::Disconnected, "[C11] status disconnected after DISCONNECT");
    core::mem::forget(ev);
    core::mem::forget(c);
}

// the three timer expiries on an established connection (fired only when armed)
#[kani::proof]
#[kani::unwind(2)]
fn st_timer_fired_v311_client() {
    let mut c = fam_client_connected(Version::V3_1_1);
    let k: u8 = kani::any();
    kani::assume(k <= 1);
    let kind = if k == 0 { TimerKind::PingreqSend } else { TimerKind::PingrespRecv };
    // contract: fired only when armed
    if k == 0 {
        kani::assume(c.pingreq_send_set);
    } else {
        kani::assume(c.pingresp_recv_set);
    }
    let mut pre = tm_of(&c);
    // the expiry itself disarms the timer
    if k == 0 {
        pre.send = false;
    } else {
        pre.resp = false;
    }
    let ev = c.notify_timer_fired(kind);
    monitor(pre, &ev, &c);
    if k == 0 {
        assert!(ev.len() >= 1 && is_send(&sm(&ev, 0)), "[C15] PINGREQ timer expiry sends PINGREQ");
    } else {
        assert!(count(&ev, is_close) == 1, "[C19] keep-alive timeout on an established connection results in a close request");
    }
    core::mem::forget(ev);
    core::mem::forget(c);
}

#[kani::proof]
#[kani::unwind(2)]
fn st_timer_fired_v5_client_pingresp() {
    set_detail(true);
    let mut c = fam_client_connected(Version::V5_0);
    kani::assume(c.pingresp_recv_set);
    let mut pre = tm_of(&c);
    pre.resp = false;
    let ev = c.notify_timer_fired(TimerKind::PingrespRecv);
    monitor(pre, &ev, &c);
    let n = ev.len();
    assert!(n >= 2 && is_send(&sm(&ev, n - 2)) && is_close(&sm(&ev, n - 1)), "[C15,C19] v5.0 PINGRESP timeout: DISCONNECT then close");
    let d = sm(&ev, n - 2);
    assert!(d.pkt.ptype == 14 && d.pkt.v5 && d.pkt.rc == 0x8D, "[C15] v5.0 timeout sends DISCONNECT with reason Keep Alive timeout");
    core::mem::forget(ev);
    core::mem::forget(c);
}

#[kani::proof]
#[kani::unwind(2)]
fn st_timer_fired_server_pingreq_recv() {
    let v5: bool = kani::any();
    let mut c = fam_server_connected(v311_or_v5(v5));
    kani::assume(c.pingreq_recv_set);
    let mut pre = tm_of(&c);
    pre.recv = false;
    let ev = c.notify_timer_fired(TimerKind::PingreqRecv);
    monitor(pre, &ev, &c);
    let n = ev.len();
    assert!(count(&ev, is_close) == 1, "[C19] keep-alive timeout on an established connection results in a close request");
    if v5 {
        assert!(n == 2 && is_send(&sm(&ev, 0)) && is_close(&sm(&ev, 1)), "[C15] v5.0 keep-alive timeout: DISCONNECT then close");
    } else {
        assert!(n == 1, "[C15] v3.1.1 keep-alive timeout: close only");
    }
    core::mem::forget(ev);
    core::mem::forget(c);
}

// transport reported closed, from any status with symbolic leftovers
#[kani::proof]
#[kani::unwind(2)]
fn st_notify_closed_any() {
    let v5: bool = kani::any();
    let mut c = AC::new(v311_or_v5(v5));
    let st: u8 = kani::any();
    kani::assume(st <= 2);
    c.status = match st {
        0 => ConnectionStatus::Disconnected,
        1 => ConnectionStatus::Connecting,
        _ => ConnectionStatus::Connected,
    };
    c.is_client = kani::any();
    c.need_store = kani::any();
    c.pingreq_send_set = kani::any();
    c.pingreq_recv_set = kani::any();
    c.pingresp_recv_set = kani::any();
    if st == 0 {
        // a disconnected object holds no armed timer (the property under test keeps it so)
        kani::assume(!c.pingreq_send_set && !c.pingreq_recv_set && !c.pingresp_recv_set);
    }
    c.maximum_packet_size_send = kani::any();
    c.maximum_packet_size_recv = kani::any();
    c.topic_alias_send = if kani::any() { Some(TopicAliasSend::new(3)) } else { None };
    c.topic_alias_recv = if kani::any() { Some(TopicAliasRecv::new(3)) } else { None };
    // one pending subscribe id, one QoS1 id in flight, one handled QoS2 id
    let sid: u16 = kani::any();
    let pid: u16 = kani::any();
    let hid: u16 = kani::any();
    kani::assume(sid != 0 && pid != 0 && hid != 0 && sid != pid);
    use_ids(&mut c, &[sid, pid]);
    c.pid_suback.insert(sid);
    c.pid_puback.insert(pid);
    c.qos2_publish_handled.insert(hid);
    // a partially received frame
    let part: bool = kani::any();
    if part {
        pbh::make_partial(&mut c.packet_builder, kani::any(), kani::any());
    }
    let need_store = c.need_store;
    let pre = tm_of(&c);
    let ev = c.notify_closed();
    monitor(pre, &ev, &c);
    assert!(c.status == ConnectionStatus::Disconnected, "[C10] closed");
    assert!(!c.pingreq_send_set && !c.pingreq_recv_set && !c.pingresp_recv_set, "[C15] after the transport is closed no timer remains armed");
    assert!(count(&ev, is_any_cancel) == pre.send as usize + pre.recv as usize + pre.resp as usize, "[C15] exactly the armed timers are cancelled on close");
    assert!(c.topic_alias_send.is_none() && c.topic_alias_recv.is_none(), "[C13] alias bindings do not survive the connection");
    assert!(c.maximum_packet_size_send == MQTT_PACKET_SIZE_NO_LIMIT && c.maximum_packet_size_recv == MQTT_PACKET_SIZE_NO_LIMIT, "[C10] size limits reset on close");
    // identifiers
    assert!(c.pid_suback.len() == 0 && !c.pid_man.is_used_id(sid), "[C08] pending subscribe id released on close");
    assert!(count(&ev, |e| is_released(e, sid)) == 1, "[C08] release announced exactly once (subscribe id)");
    if need_store {
        assert!(c.pid_man.is_used_id(pid) && c.pid_puback.contains(&pid), "[C06] persistent session keeps in-flight publish ids over a close");
        assert!(count(&ev, |e| is_released(e, pid)) == 0, "[C08] no release announced for a held id");
        assert!(c.qos2_publish_handled.contains(&hid), "[C07] handled QoS2 ids survive a close of a persistent session");
    } else {
        assert!(!c.pid_man.is_used_id(pid) && c.pid_puback.len() == 0, "[C08] non-persistent in-flight ids released on close");
        assert!(count(&ev, |e| is_released(e, pid)) == 1, "[C08] release announced exactly once (publish id)");
        assert!(c.qos2_publish_handled.len() == 0, "[C07] handled ids dropped with a non-persistent session");
    }
    assert!(pbh::is_fresh(&c.packet_builder), "[C10] a partially received frame does not survive the close");
    core::mem::forget(ev);
    core::mem::forget(c);
}

// PINGRESP received by a client cancels the response timer iff armed
#[kani::proof]
#[kani::unwind(2)]
fn st_recv_pingresp_client() {
    let v5: bool = kani::any();
    let mut c = fam_client_connected(v311_or_v5(v5));
    let pre = tm_of(&c);
    let raw = pbh::verif_raw(0xD0, &[]);
    let ev = if v5 { c.process_recv_v5_0_pingresp(raw) } else { c.process_recv_v3_1_1_pingresp(raw) };
    monitor(pre, &ev, &c);
    assert!(!c.pingresp_recv_set, "[C15] PINGRESP cancels the response timer");
    assert!(ev.len() == 1 + pre.resp as usize && is_recv(&sm(&ev, ev.len() - 1)), "[C15] PINGRESP: cancel iff armed, then delivery");
    core::mem::forget(ev);
    core::mem::forget(c);
}

// =================================================================== B. identifiers, QoS exchanges, store
fn mk_pub311(qos: u8, id: u16, dup: bool) -> v3_1_1::GenericPublish<u16> {
    let body: [u8; 6] = [0, 1, b't', (id >> 8) as u8, id as u8, 0x55];
    let arc: crate::mqtt::common::Arc<[u8]> = crate::mqtt::common::Arc::from(&body[..]);
    v3_1_1::GenericPublish::<u16>::parse((qos << 1) | ((dup as u8) << 3), arc).unwrap().0
}
fn mk_pub5(qos: u8, id: u16, dup: bool) -> v5_0::GenericPublish<u16> {
    // (parsing this fixed body is cheaper under CBMC than going through the builder: measured 4.5 GB vs > 8 GB)
    let body: [u8; 7] = [0, 1, b't', (id >> 8) as u8, id as u8, 0, 0x55];
    let arc: crate::mqtt::common::Arc<[u8]> = crate::mqtt::common::Arc::from(&body[..]);
    v5_0::GenericPublish::<u16>::parse((qos << 1) | ((dup as u8) << 3), arc).unwrap().0
}

/// session with QoS1 id `i` awaiting PUBACK and QoS2 id `j` awaiting PUBREC (both stored when persistent)
fn fam_inflight<R: RoleType>(c: &mut GenericConnection<R, u16>, i: u16, j: u16, persistent: bool) {
    kani::assume(i != 0 && j != 0 && i != j);
    c.need_store = persistent;
    use_ids(c, &[i, j]);
    c.pid_puback.insert(i);
    c.pid_pubrec.insert(j);
    if persistent {
        if c.protocol_version == Version::V5_0 {
            c.store.add(mk_pub5(1, i, true).try_into().unwrap()).unwrap();
            c.store.add(mk_pub5(2, j, true).try_into().unwrap()).unwrap();
        } else {
            c.store.add(mk_pub311(1, i, true).try_into().unwrap()).unwrap();
            c.store.add(mk_pub311(2, j, true).try_into().unwrap()).unwrap();
        }
    }
}

// PUBACK received (v3.1.1 client, persistent session): exactly the matching exchange completes
#[kani::proof]
#[kani::unwind(2)]
#[kani::stub(core::str::from_utf8, utf8_model)]
fn st_recv_puback_v311_persistent() {
    let mut c = fam_client_connected(Version::V3_1_1);
    let i: u16 = kani::any();
    let j: u16 = kani::any();
    // QoS1 id i in flight and stored; QoS2 id j awaiting PUBREC (its stored copy is left out to keep the
    // store at one entry: the handler only looks at the id it is given)
    fam_inflight(&mut c, i, j, false);
    c.need_store = true;
    c.store.add(mk_pub311(1, i, true).try_into().unwrap()).unwrap();
    let pre = tm_of(&c);
    let r: u16 = kani::any();
    kani::cover!(r == i, "matching PUBACK");
    kani::cover!(r == j, "PUBACK for an id awaiting PUBREC (wrong kind)");
    kani::cover!(r == 0, "PUBACK with id 0");
    let raw = pbh::verif_raw(0x40, &[(r >> 8) as u8, r as u8]);
    let ev = c.process_recv_v3_1_1_puback(raw);
    monitor(pre, &ev, &c);
    if r == i {
        assert!(count(&ev, |e| is_released(e, i)) == 1 && !c.pid_man.is_used_id(i), "[C08] matching PUBACK releases the id exactly once");
        assert!(!c.pid_puback.contains(&i) && !sth::has(&c.store, i), "[C06] matching PUBACK erases exactly the stored PUBLISH");
        assert!(count(&ev, is_recv) == 1 && count(&ev, is_any_err) == 0, "[C05] matching PUBACK delivered");
    } else {
        assert!(count(&ev, is_any_err) == 1 && count(&ev, is_recv) == 0, "[C06] a PUBACK matching nothing in flight is reported as an error");
        assert!(count(&ev, is_any_released) == 0, "[C08] no release for an unmatched acknowledgement");
        assert!(c.pid_man.is_used_id(i) && c.pid_puback.contains(&i) && sth::has(&c.store, i), "[C06] unmatched PUBACK erases nothing");
        assert!(count(&ev, is_close) == 1, "[C19] protocol error on v3.1.1 requests a close");
    }
    // the QoS2 exchange is never touched by a PUBACK
    assert!(c.pid_man.is_used_id(j) && c.pid_pubrec.contains(&j), "[C06] PUBACK never completes a QoS2 exchange");
    assert!(sth::len(&c.store) == (r != i) as usize, "[C06] store size after PUBACK");
    core::mem::forget(ev);
    core::mem::forget(c);
}

// PUBACK received (v5.0 client, Receive Maximum M): counter arithmetic at full width
#[kani::proof]
#[kani::unwind(2)]
#[kani::stub(core::str::from_utf8, utf8_model)]
fn st_recv_puback_v5_flow() {
    let mut c = fam_client_connected(Version::V5_0);
    let i: u16 = kani::any();
    let j: u16 = kani::any();
    fam_inflight(&mut c, i, j, false);
    let m: u16 = kani::any();
    let cnt: u16 = kani::any();
    // I3: the counter counts the incomplete exchanges of this connection (here: i and j), never above M
    kani::assume(m >= 2 && cnt == 2);
    c.publish_send_max = Some(m);
    c.publish_send_count = cnt;
    let pre = tm_of(&c);
    let r: u16 = kani::any();
    kani::cover!(r == i, "matching PUBACK");
    kani::cover!(r != i, "unmatched PUBACK");
    let raw = pbh::verif_raw(0x40, &[(r >> 8) as u8, r as u8]);
    let ev = c.process_recv_v5_0_puback(raw);
    monitor(pre, &ev, &c);
    if r == i {
        assert!(c.publish_send_count == cnt - 1, "[C12] a completed exchange frees one slot");
        assert!(c.get_receive_maximum_vacancy_for_send() == Some(m - 1), "[C12] vacancy equals M minus incomplete exchanges");
        assert!(count(&ev, |e| is_released(e, i)) == 1 && !c.pid_man.is_used_id(i), "[C08] matching PUBACK releases the id exactly once");
        assert!(count(&ev, is_recv) == 1, "[C05] matching PUBACK delivered");
    } else {
        assert!(c.publish_send_count == cnt, "[C12] an unmatched PUBACK frees nothing");
        assert!(c.pid_man.is_used_id(i) && c.pid_puback.contains(&i), "[C06] unmatched PUBACK erases nothing");
        assert!(count(&ev, is_any_err) == 1 && count(&ev, is_recv) == 0, "[C06] a PUBACK matching nothing in flight is reported as an error");
        let n = ev.len();
        assert!(is_send(&sm(&ev, n - 3)) && is_close(&sm(&ev, n - 2)) && is_any_err(&sm(&ev, n - 1)), "[C19] v5.0 protocol error: DISCONNECT, close, error in that order");
    }
    assert!(c.pid_man.is_used_id(j) && c.pid_pubrec.contains(&j), "[C06] PUBACK never completes a QoS2 exchange");
    core::mem::forget(ev);
    core::mem::forget(c);
}

// PUBREC received (v5.0): success keeps the id and the slot (PUBREL follows), an error code ends the exchange
#[kani::proof]
#[kani::unwind(2)]
#[kani::stub(core::str::from_utf8, utf8_model)]
fn st_recv_pubrec_v5_flow() {
    let mut c = fam_client_connected(Version::V5_0);
    let i: u16 = kani::any();
    let j: u16 = kani::any();
    fam_inflight(&mut c, i, j, false);
    let m: u16 = kani::any();
    kani::assume(m >= 2);
    c.publish_send_max = Some(m);
    c.publish_send_count = 2;
    c.auto_pub_response = kani::any();
    let pre = tm_of(&c);
    let r: u16 = kani::any();
    let rc: u8 = kani::any();
    kani::assume(PubrecReasonCode::try_from(rc).is_ok());
    let failure = rc >= 0x80;
    kani::cover!(r == j && failure, "PUBREC with an error code");
    kani::cover!(r == j && !failure, "successful PUBREC");
    kani::cover!(r == i, "PUBREC for an id awaiting PUBACK (wrong kind)");
    let raw = pbh::verif_raw(0x50, &[(r >> 8) as u8, r as u8, rc]);
    let ev = c.process_recv_v5_0_pubrec(raw);
    monitor(pre, &ev, &c);
    if r == j {
        assert!(!c.pid_pubrec.contains(&j), "[C06] PUBREC ends the wait for PUBREC");
        assert!(count(&ev, is_recv) == 1, "[C05] matching PUBREC delivered");
        if failure {
            assert!(c.publish_send_count == 1, "[C12] an error PUBREC frees the slot");
            assert!(count(&ev, |e| is_released(e, j)) == 1 && !c.pid_man.is_used_id(j), "[C08] an error PUBREC releases the id exactly once");
            assert!(count(&ev, is_send) == 0, "[C06] no PUBREL after an error PUBREC");
        } else {
            assert!(c.publish_send_count == 2, "[C12] a successful PUBREC keeps the slot until PUBCOMP");
            assert!(c.pid_man.is_used_id(j) && count(&ev, is_any_released) == 0, "[C08] the id stays in use until PUBCOMP");
            assert!(count(&ev, is_send) == c.auto_pub_response as usize, "[C06] PUBREL sent automatically iff enabled");
            if c.auto_pub_response {
                assert!(c.pid_pubcomp.contains(&j), "[C06] PUBREL sent: now waiting for PUBCOMP");
            }
        }
    } else {
        assert!(c.publish_send_count == 2 && c.pid_man.is_used_id(j) && c.pid_pubrec.contains(&j), "[C06] unmatched PUBREC changes nothing");
        assert!(count(&ev, is_any_err) == 1 && count(&ev, is_recv) == 0, "[C06] a PUBREC matching nothing in flight is reported as an error");
    }
    assert!(c.pid_man.is_used_id(i) && c.pid_puback.contains(&i), "[C06] PUBREC never completes a QoS1 exchange");
    core::mem::forget(ev);
    core::mem::forget(c);
}

// lighter form for the quick tier: one QoS2 exchange waiting for PUBREC, every PUBREC reason code.
// Reason codes below 0x80 (Success 0x00, No matching subscribers 0x10) continue with PUBREL; only >= 0x80 end the exchange.
#[kani::proof]
#[kani::unwind(2)]
fn st_recv_pubrec_v5_reason_codes() {
    let mut c = CC::new(Version::V5_0);
    c.is_client = true;
    c.status = ConnectionStatus::Connected;
    c.auto_pub_response = kani::any();
    let j: u16 = kani::any();
    kani::assume(j != 0);
    use_ids(&mut c, &[j]);
    c.pid_pubrec.insert(j);
    let m: u16 = kani::any();
    let cnt: u16 = kani::any();
    kani::assume(cnt >= 1 && cnt <= m);
    c.publish_send_max = Some(m);
    c.publish_send_count = cnt;
    let rc: u8 = kani::any();
    kani::assume(PubrecReasonCode::try_from(rc).is_ok());
    let failure = rc >= 0x80;
    kani::cover!(rc == 0x10, "success code other than 0x00");
    kani::cover!(failure, "error code");
    let raw = pbh::verif_raw(0x50, &[(j >> 8) as u8, j as u8, rc]);
    let ev = c.process_recv_v5_0_pubrec(raw);
    assert!(!c.pid_pubrec.contains(&j) && count(&ev, is_recv) == 1, "[C06] the matching PUBREC ends the wait for PUBREC and is delivered");
    if failure {
        assert!(c.publish_send_count == cnt - 1, "[C12] an error PUBREC frees the slot");
        assert!(count(&ev, |e| is_released(e, j)) == 1 && !c.pid_man.is_used_id(j), "[C08] an error PUBREC releases the id exactly once");
        assert!(count(&ev, is_send) == 0, "[C06] no PUBREL after an error PUBREC");
    } else {
        assert!(c.publish_send_count == cnt, "[C12] a successful PUBREC (any reason code below 0x80) keeps the slot until PUBCOMP");
        assert!(c.pid_man.is_used_id(j) && count(&ev, is_any_released) == 0, "[C06,C08] the id stays in use until PUBCOMP");
        assert!(count(&ev, is_send) == c.auto_pub_response as usize, "[C06] PUBREL sent automatically iff enabled");
        if c.auto_pub_response {
            assert!(c.pid_pubcomp.contains(&j), "[C06] PUBREL sent: now waiting for PUBCOMP");
        }
    }
    core::mem::forget(ev);
    core::mem::forget(c);
}

// PUBCOMP received (both versions): completes exactly the exchange waiting for it
#[kani::proof]
#[kani::unwind(2)]
#[kani::stub(core::str::from_utf8, utf8_model)]
fn st_recv_pubcomp_flow() {
    let v5: bool = kani::any();
    let mut c = fam_client_connected(v311_or_v5(v5));
    let i: u16 = kani::any();
    let k: u16 = kani::any();
    kani::assume(i != 0 && k != 0 && i != k);
    use_ids(&mut c, &[i, k]);
    c.pid_puback.insert(i);
    c.pid_pubcomp.insert(k);
    let m: u16 = kani::any();
    kani::assume(m >= 2);
    if v5 {
        c.publish_send_max = Some(m);
        c.publish_send_count = 2;
    }
    let pre = tm_of(&c);
    let r: u16 = kani::any();
    kani::cover!(r == k, "matching PUBCOMP");
    kani::cover!(r == i, "PUBCOMP for an id awaiting PUBACK");
    let raw = pbh::verif_raw(0x70, &[(r >> 8) as u8, r as u8]);
    let ev = if v5 { c.process_recv_v5_0_pubcomp(raw) } else { c.process_recv_v3_1_1_pubcomp(raw) };
    monitor(pre, &ev, &c);
    if r == k {
        assert!(count(&ev, |e| is_released(e, k)) == 1 && !c.pid_man.is_used_id(k) && !c.pid_pubcomp.contains(&k), "[C08] PUBCOMP releases the id exactly once");
        if v5 {
            assert!(c.publish_send_count == 1 && c.get_receive_maximum_vacancy_for_send() == Some(m - 1), "[C12] PUBCOMP frees one slot");
        }
    } else {
        assert!(c.pid_man.is_used_id(k) && c.pid_pubcomp.contains(&k), "[C06] unmatched PUBCOMP changes nothing");
        assert!(count(&ev, is_any_err) == 1 && count(&ev, is_recv) == 0, "[C06] a PUBCOMP matching nothing in flight is reported as an error");
        if v5 {
            assert!(c.publish_send_count == 2, "[C12] unmatched PUBCOMP frees nothing");
        }
    }
    assert!(c.pid_man.is_used_id(i) && c.pid_puback.contains(&i), "[C06] PUBCOMP never completes a QoS1 exchange");
    core::mem::forget(ev);
    core::mem::forget(c);
}

// QoS1 PUBLISH sent on a persistent v3.1.1 session: stored with DUP, id held, sent at once
#[kani::proof]
#[kani::unwind(2)]
#[kani::stub(core::str::from_utf8, utf8_model)]
fn st_send_publish_v311_q1_persistent() {
    let mut c = fam_client_connected(Version::V3_1_1);
    c.need_store = true;
    let id: u16 = kani::any();
    kani::assume(id != 0);
    let registered: bool = kani::any();
    if registered {
        use_ids(&mut c, &[id]);
    }
    let pre = tm_of(&c);
    let ev = c.process_send_v3_1_1_publish(mk_pub311(1, id, false));
    monitor(pre, &ev, &c);
    if registered {
        assert!(is_send(&sm(&ev, 0)) && send_has_release(&sm(&ev, 0), None), "[C06] accepted QoS1 PUBLISH is requested for sending at once");
        assert!(c.pid_puback.contains(&id) && c.pid_man.is_used_id(id), "[C06] id held while waiting for PUBACK");
        assert!(sth::len(&c.store) == 1 && sth::info(&c.store, id) == Some((1, true, false, false)), "[C06] stored copy: QoS1, DUP set, full topic");
    } else {
        assert!(ev.len() == 1 && is_err(&sm(&ev, 0), MqttError::PacketIdentifierInvalid), "[C08] an id that was not acquired/registered is refused");
        assert!(sth::len(&c.store) == 0 && !c.pid_puback.contains(&id) && !c.pid_man.is_used_id(id), "[C11] refused send leaves no trace");
    }
    core::mem::forget(ev);
    core::mem::forget(c);
}

// QoS1/2 PUBLISH sent on v5.0 against Receive Maximum M (not stored): refused exactly at the limit
#[kani::proof]
#[kani::unwind(2)]
#[kani::stub(core::str::from_utf8, utf8_model)]
fn st_send_publish_v5_flow() {
    let mut c = fam_client_connected(Version::V5_0);
    let id: u16 = kani::any();
    kani::assume(id != 0);
    use_ids(&mut c, &[id]);
    let m: u16 = kani::any();
    let cnt: u16 = kani::any();
    kani::assume(m >= 1 && cnt <= m);
    c.publish_send_max = Some(m);
    c.publish_send_count = cnt;
    let q2: bool = kani::any();
    let pre = tm_of(&c);
    kani::cover!(cnt == m, "at the limit");
    kani::cover!(cnt + 1 == m, "last free slot");
    let ev = c.process_send_v5_0_publish(mk_pub5(if q2 { 2 } else { 1 }, id, false));
    monitor(pre, &ev, &c);
    if cnt == m {
        assert!(is_err(&sm(&ev, 0), MqttError::ReceiveMaximumExceeded) && count(&ev, is_send) == 0, "[C12] a new QoS>0 PUBLISH is refused while M exchanges are incomplete");
        assert!(count(&ev, |e| is_released(e, id)) == 1 && !c.pid_man.is_used_id(id), "[C08] a refused send releases its id exactly once");
        assert!(c.publish_send_count == cnt && !c.pid_puback.contains(&id) && !c.pid_pubrec.contains(&id), "[C12] a refused send records nothing");
        assert!(c.get_receive_maximum_vacancy_for_send() == Some(0), "[C12] vacancy saturates at zero");
    } else {
        assert!(c.publish_send_count == cnt + 1, "[C12] an accepted QoS>0 PUBLISH takes one slot");
        assert!(c.get_receive_maximum_vacancy_for_send() == Some(m - cnt - 1), "[C12] vacancy equals M minus incomplete exchanges");
        assert!(is_send(&sm(&ev, 0)) && send_has_release(&sm(&ev, 0), Some(id)), "[C08] non-stored PUBLISH carries its id for release on send error");
        assert!(c.pid_man.is_used_id(id) && (if q2 { c.pid_pubrec.contains(&id) } else { c.pid_puback.contains(&id) }), "[C06] id held for the acknowledgement of its QoS");
    }
    core::mem::forget(ev);
    core::mem::forget(c);
}

// =================================================================== C07 inbound QoS2
#[kani::proof]
#[kani::unwind(2)]
#[kani::stub(core::str::from_utf8, utf8_model)]
fn st_recv_publish_q2_v311() {
    let mut c = fam_client_connected(Version::V3_1_1);
    c.auto_pub_response = kani::any();
    let h: u16 = kani::any();
    kani::assume(h != 0);
    c.qos2_publish_handled.insert(h);
    let r: u16 = kani::any();
    let dup: bool = kani::any();
    let pre = tm_of(&c);
    kani::cover!(r == h && dup, "retransmission of a handled PUBLISH");
    kani::cover!(r != h && r != 0, "new QoS2 PUBLISH");
    let body: [u8; 6] = [0, 1, b't', (r >> 8) as u8, r as u8, kani::any()];
    let raw = pbh::verif_raw(0x34 | ((dup as u8) << 3), &body);
    let ev = c.process_recv_v3_1_1_publish(raw);
    monitor(pre, &ev, &c);
    if r == 0 {
        assert!(count(&ev, is_any_err) == 1 && count(&ev, is_recv) == 0, "[C04] QoS2 PUBLISH with packet identifier 0 is malformed");
    } else {
        assert!((count(&ev, is_recv) == 1) == (r != h), "[C07] a QoS2 PUBLISH is notified exactly when its id is not already handled");
        assert!(count(&ev, is_recv) <= 1, "[C07] at most one notification");
        assert!(c.qos2_publish_handled.contains(&r) && c.qos2_publish_handled.contains(&h), "[C07] id recorded as handled until PUBREL");
        assert!((count(&ev, is_send) == 1) == (c.auto_pub_response || r == h), "[C07] PUBREC sent automatically or as answer to a duplicate");
        assert!(count(&ev, is_any_err) == 0, "[C05] valid PUBLISH raises no error");
    }
    core::mem::forget(ev);
    core::mem::forget(c);
}

#[kani::proof]
#[kani::unwind(2)]
#[kani::stub(core::str::from_utf8, utf8_model)]
fn st_recv_pubrel_flow() {
    let v5: bool = kani::any();
    let mut c = fam_client_connected(v311_or_v5(v5));
    c.auto_pub_response = kani::any();
    let h: u16 = kani::any();
    let g: u16 = kani::any();
    kani::assume(h != 0 && g != 0 && g != h);
    c.qos2_publish_handled.insert(h);
    c.qos2_publish_handled.insert(g);
    let r: u16 = kani::any();
    let pre = tm_of(&c);
    let raw = pbh::verif_raw(0x62, &[(r >> 8) as u8, r as u8]);
    let ev = if v5 { c.process_recv_v5_0_pubrel(raw) } else { c.process_recv_v3_1_1_pubrel(raw) };
    monitor(pre, &ev, &c);
    if r != 0 {
        assert!(!c.qos2_publish_handled.contains(&r), "[C07] after PUBREL the next PUBLISH with that id is a new message");
        assert!(c.qos2_publish_handled.contains(&g) == (r != g) && c.qos2_publish_handled.contains(&h) == (r != h), "[C07] PUBREL forgets only its own id");
        assert!(count(&ev, is_recv) == 1 && count(&ev, is_any_err) == 0, "[C05] PUBREL delivered");
        assert!(count(&ev, is_send) == c.auto_pub_response as usize, "[C07] PUBCOMP sent automatically iff enabled");
    } else {
        assert!(count(&ev, is_any_err) == 1 && c.qos2_publish_handled.len() == 2, "[C04] PUBREL with id 0 is malformed and changes nothing");
    }
    core::mem::forget(ev);
    core::mem::forget(c);
}

// first step of a second connection: clean-start CONNECT sent by a reused client vs a fresh client
fn mk_connect_v311(ka: u16, clean: bool) -> v3_1_1::Connect {
    let b: [u8; 13] = [0, 4, b'M', b'Q', b'T', b'T', 4, (clean as u8) << 1, (ka >> 8) as u8, ka as u8, 0, 1, b'c'];
    v3_1_1::Connect::parse(&b[..]).unwrap().0
}

#[kani::proof]
#[kani::unwind(2)]
#[kani::stub(core::str::from_utf8, utf8_model)]
fn st_reuse_client_v311_clean_connect() {
    // reused object: disconnected after a persistent first connection, leftovers symbolic
    let mut c = CC::new(Version::V3_1_1);
    c.is_client = true;
    c.need_store = kani::any();
    c.publish_send_max = kani::any();
    c.publish_recv_max = kani::any();
    c.publish_send_count = kani::any();
    c.pingreq_keep_alive_ms = kani::any();
    c.pingreq_server_keep_alive_ms = kani::any();
    let h: u16 = kani::any();
    let i: u16 = kani::any();
    kani::assume(h != 0 && i != 0);
    // survivors of a persistent session
    c.qos2_publish_handled.insert(h);
    use_ids(&mut c, &[i]);
    c.pid_puback.insert(i);
    let ka: u16 = kani::any();
    let pre = tm_of(&c);
    let ev = c.process_send_v3_1_1_connect(mk_connect_v311(ka, true));
    monitor(pre, &ev, &c);
    let mut f = CC::new(Version::V3_1_1);
    let ev2 = f.process_send_v3_1_1_connect(mk_connect_v311(ka, true));
    assert!(c.status == f.status && c.need_store == f.need_store && c.is_client == f.is_client, "[C10] status/persistence equal to a fresh object");
    assert!(c.publish_send_max == f.publish_send_max && c.publish_recv_max == f.publish_recv_max && c.publish_send_count == f.publish_send_count, "[C10] receive maxima not inherited");
    assert!(c.pingreq_keep_alive_ms == f.pingreq_keep_alive_ms && c.pingreq_server_keep_alive_ms == f.pingreq_server_keep_alive_ms, "[C10] keep-alive values not inherited");
    assert!(c.pingreq_send_set == f.pingreq_send_set && ev.len() == ev2.len(), "[C10] same events as a fresh object");
    assert!(!c.pid_man.is_used_id(i) && c.pid_puback.len() == 0, "[C10] a new session holds no in-flight id of the old one");
    assert!(c.qos2_publish_handled.len() == 0, "[C07,C10] a new session forgets the QoS2 ids handled in the old one");
    core::mem::forget(ev);
    core::mem::forget(ev2);
    core::mem::forget(c);
    core::mem::forget(f);
}

// =================================================================== C17 receive gating
/// MQTT rule: may the remote side of a connection with this role send packet type t in version v?
/// (role Client => the remote is a server; role Server => the remote is a client; Any => either)
fn spec_remote_may_send(role_client: bool, role_server: bool, v5: bool, t: u8) -> bool {
    // packet types a server never receives from a client: CONNACK(2) SUBACK(9) UNSUBACK(11) PINGRESP(13)
    // packet types a client never receives from a server: CONNECT(1) SUBSCRIBE(8) UNSUBSCRIBE(10) PINGREQ(12); v3.1.1 DISCONNECT(14)
    // AUTH(15) exists only in v5.0
    let from_server_ok = !(t == 1 || t == 8 || t == 10 || t == 12 || (t == 14 && !v5) || (t == 15 && !v5));
    let from_client_ok = !(t == 2 || t == 9 || t == 11 || t == 13 || (t == 15 && !v5));
    if role_client {
        from_server_ok
    } else if role_server {
        from_client_ok
    } else {
        from_server_ok || from_client_ok
    }
}

#[kani::proof]
#[kani::unwind(2)]
fn c17_can_receive_table() {
    let t: u8 = kani::any();
    let v5: bool = kani::any();
    let v = v311_or_v5(v5);
    let c = CC::new(v);
    let s = SC::new(v);
    let a = AC::new(v);
    assert!(c.can_receive(t) == spec_remote_may_send(true, false, v5, t), "[C17] client role: receivable packet types per MQTT");
    assert!(s.can_receive(t) == spec_remote_may_send(false, true, v5, t), "[C17] server role: receivable packet types per MQTT");
    // role Any stands for either side: nothing a client or a server may send is refused at the gate
    // (what neither may send is rejected by the version dispatch, see the dispatch harnesses)
    assert!(!spec_remote_may_send(false, false, v5, t) || a.can_receive(t), "[C17] any role: every packet type one of the two sides may send is receivable");
    kani::cover!(t == 14 && !v5, "v3.1.1 DISCONNECT");
    core::mem::forget(c);
    core::mem::forget(s);
    core::mem::forget(a);
}

// dispatch with a symbolic fixed-header byte (all type nibbles and flags, empty body) on a connected client
fn dispatch_client(v5: bool) {
    let mut c = fam_client_connected(v311_or_v5(v5));
    let i: u16 = kani::any();
    kani::assume(i != 0);
    use_ids(&mut c, &[i]);
    c.pid_puback.insert(i);
    let h: u8 = kani::any();
    kani::assume((h >> 4) != 3); // PUBLISH carries its body in the Arc variant: separate harnesses
    let pre = tm_of(&c);
    let raw = pbh::verif_raw(h, &[]);
    let ev = c.process_recv_packet(raw);
    monitor(pre, &ev, &c);
    let t = h >> 4;
    if !spec_remote_may_send(true, false, v5, t) {
        assert!(ev.len() == 1 && is_err(&sm(&ev, 0), MqttError::ProtocolError), "[C17] a packet the remote side may never send is a protocol error and nothing else");
        assert!(c.status == ConnectionStatus::Connected && c.pid_man.is_used_id(i) && c.pid_puback.contains(&i), "[C17] rejected packet is not acted upon");
    } else if t == 0 || (t == 15 && !v5) {
        assert!(ev.len() == 1 && is_any_err(&sm(&ev, 0)), "[C17] reserved packet type is an error");
    } else if t == 13 {
        assert!(count(&ev, is_recv) == 1, "[C17] PINGRESP (empty body) is delivered to a client");
    } else if t == 14 && v5 {
        assert!(count(&ev, is_recv) == 1, "[C17] v5.0 DISCONNECT with empty body is delivered to a client");
    } else {
        // every other kind needs a body: the handler of that type ran and reported the malformed packet
        assert!(count(&ev, is_recv) == 0 && count(&ev, is_any_err) == 1, "[C05] a received packet that is not delivered is reported through an error event");
    }
    assert!(c.pid_man.is_used_id(i), "[C06] an empty-bodied packet never releases an id");
    core::mem::forget(ev);
    core::mem::forget(c);
}
#[kani::proof]
#[kani::unwind(2)]
#[kani::stub(core::str::from_utf8, utf8_model)]
fn st_dispatch_client_v311() {
    dispatch_client(false)
}
#[kani::proof]
#[kani::unwind(2)]
#[kani::stub(core::str::from_utf8, utf8_model)]
fn st_dispatch_client_v5() {
    dispatch_client(true)
}

// dispatch on a connected server
fn dispatch_server(v5: bool) {
    let mut c = fam_server_connected(v311_or_v5(v5));
    let h: u8 = kani::any();
    kani::assume((h >> 4) != 3);
    let pre = tm_of(&c);
    let raw = pbh::verif_raw(h, &[]);
    let ev = c.process_recv_packet(raw);
    monitor(pre, &ev, &c);
    let t = h >> 4;
    if !spec_remote_may_send(false, true, v5, t) {
        assert!(ev.len() == 1 && is_err(&sm(&ev, 0), MqttError::ProtocolError), "[C17] a packet the remote side may never send is a protocol error and nothing else");
        assert!(c.status == ConnectionStatus::Connected, "[C17] rejected packet is not acted upon");
    } else if t == 1 {
        assert!(count(&ev, is_recv) == 0 && count(&ev, is_any_err) == 1, "[C17] CONNECT on an established connection is a protocol error");
    } else if t == 12 || t == 14 {
        assert!(count(&ev, is_recv) == 1, "[C17] PINGREQ / DISCONNECT with empty body are delivered to a server");
    } else {
        assert!(count(&ev, is_recv) == 0 && count(&ev, is_any_err) >= 1, "[C05] a received packet that is not delivered is reported through an error event");
    }
    core::mem::forget(ev);
    core::mem::forget(c);
}
#[kani::proof]
#[kani::unwind(2)]
#[kani::stub(core::str::from_utf8, utf8_model)]
fn st_dispatch_server_v311() {
    dispatch_server(false)
}
#[kani::proof]
#[kani::unwind(2)]
#[kani::stub(core::str::from_utf8, utf8_model)]
fn st_dispatch_server_v5() {
    dispatch_server(true)
}

// undetermined server: the first packet decides the version
#[kani::proof]
#[kani::unwind(2)]
#[kani::stub(core::str::from_utf8, utf8_model)]
fn st_undetermined_first_packet() {
    let mut c = SC::new(Version::Undetermined);
    let h: u8 = kani::any();
    kani::assume((h >> 4) != 3);
    let lvl: u8 = kani::any();
    let body: [u8; 7] = [0, 4, b'M', b'Q', b'T', b'T', lvl];
    let short: bool = kani::any();
    let raw = if short { pbh::verif_raw(h, &body[..6]) } else { pbh::verif_raw(h, &body[..]) };
    let pre = tm_of(&c);
    let ev = c.process_recv_packet(raw);
    monitor(pre, &ev, &c);
    let t = h >> 4;
    assert!(count(&ev, is_recv) == 0, "[C17] a truncated or non-CONNECT first packet is never delivered");
    if !spec_remote_may_send(false, true, true, t) {
        // never receivable by a server in any version
        assert!(ev.len() == 1 && is_any_err(&sm(&ev, 0)), "[C17] unreceivable first packet is an error");
        assert!(c.protocol_version == Version::Undetermined, "[C17] version stays undetermined");
    } else if t != 1 {
        assert!(ev.len() == 1 && is_err(&sm(&ev, 0), MqttError::MalformedPacket) && c.protocol_version == Version::Undetermined, "[C17] any first packet other than CONNECT is rejected");
    } else if short {
        assert!(ev.len() == 1 && is_err(&sm(&ev, 0), MqttError::MalformedPacket) && c.protocol_version == Version::Undetermined, "[C17] truncated CONNECT is rejected before adoption");
    } else if lvl == 4 {
        assert!(c.protocol_version == Version::V3_1_1, "[C17] protocol level 4 adopts v3.1.1");
    } else if lvl == 5 {
        assert!(c.protocol_version == Version::V5_0, "[C17] protocol level 5 adopts v5.0");
    } else {
        assert!(ev.len() == 1 && is_err(&sm(&ev, 0), MqttError::UnsupportedProtocolVersion) && c.protocol_version == Version::Undetermined, "[C17] other protocol levels are rejected");
    }
    core::mem::forget(ev);
    core::mem::forget(c);
}


pub(crate) mod c11 {
    include!(concat!(env!("VERIF_HARNESS_DIR"), "/c11_h.rs"));
}


// =================================================================== C08 id-management calls are total
#[kani::proof]
#[kani::unwind(2)]
fn st_id_calls_total() {
    let mut c = CC::new(Version::V3_1_1);
    let a: u16 = kani::any();
    let b: u16 = kani::any();
    kani::assume(a != 0 && b != 0 && a != b);
    use_ids(&mut c, &[a, b]);
    let q: u16 = kani::any();
    let op: u8 = kani::any();
    kani::assume(op <= 2);
    kani::cover!(q == 0, "identifier 0");
    kani::cover!(q == u16::MAX, "identifier max");
    if op == 0 {
        let used = q == a || q == b;
        let ev = c.release_packet_id(q);
        assert!(ev.len() == used as usize, "[C08] a release is announced exactly when an in-use identifier becomes free");
        if used {
            assert!(is_released(&sm(&ev, 0), q) && !c.pid_man.is_used_id(q), "[C08] released identifier announced once");
        }
        let ev2 = c.release_packet_id(q);
        assert!(ev2.len() == 0, "[C08] a free identifier is never announced as released (no double release)");
        core::mem::forget(ev);
        core::mem::forget(ev2);
    } else if op == 1 {
        let r = c.register_packet_id(q);
        assert!(r.is_ok() == (q != 0 && q != a && q != b), "[C08] register refuses identifiers in use and 0");
    } else {
        let r = c.acquire_packet_id();
        match r {
            Ok(id) => assert!(id != 0 && id != a && id != b && c.pid_man.is_used_id(id), "[C08] acquire returns a fresh identifier"),
            Err(_) => assert!(false, "[C08] identifiers are available"),
        }
    }
    core::mem::forget(c);
}

// =================================================================== C14 Maximum Packet Size
#[kani::proof]
#[kani::unwind(2)]
fn c14_total_size_kernel() {
    let rl: u32 = kani::any();
    kani::assume(rl <= 268_435_455);
    let n = if rl < 128 {
        1
    } else if rl < 16_384 {
        2
    } else if rl < 2_097_152 {
        3
    } else {
        4
    };
    assert!(remaining_length_to_total_size(rl) == 1 + n + rl, "[C14] total size = fixed header + length of the Remaining Length field + Remaining Length");
    let v = crate::mqtt::packet::VariableByteInteger::from_u32(rl).unwrap();
    assert!(v.size() == n as usize, "[C14] same length as the variable byte integer encoding");
}

// v5.0 PUBACK sent under a peer limit L around its size (4 bytes)
#[kani::proof]
#[kani::unwind(2)]
fn st_send_puback_v5_limit() {
    set_detail(true);
    let mut c = fam_server_connected(Version::V5_0);
    let l: u32 = kani::any();
    kani::assume(l >= 1);
    c.maximum_packet_size_send = l;
    let id: u16 = kani::any();
    kani::assume(id != 0);
    let pre = tm_of(&c);
    let p = v5_0::GenericPuback::<u16>::builder().packet_id(id).build().unwrap();
    let ev = c.process_send_v5_0_puback(p);
    monitor(pre, &ev, &c);
    kani::cover!(l == 3, "limit one below the size");
    kani::cover!(l == 4, "limit equal to the size");
    if l < 4 {
        assert!(ev.len() == 1 && is_err(&sm(&ev, 0), MqttError::PacketTooLarge), "[C14] a packet larger than the peer's Maximum Packet Size is refused");
    } else {
        assert!(is_send(&sm(&ev, 0)) && sm(&ev, 0).pkt.size == 4 && sm(&ev, 0).pkt.id == id as u32, "[C14] a packet within the limit is sent unchanged");
    }
    let mut i = 0;
    while i < ev.len() {
        let e = sm(&ev, i);
        if e.kind == K_SEND {
            assert!(e.pkt.size as u64 <= l as u64, "[C14] no requested packet exceeds the peer's Maximum Packet Size");
        }
        i += 1;
    }
    core::mem::forget(ev);
    core::mem::forget(c);
}

// v5.0 QoS1 PUBLISH (size 9) under a limit around its size: refusal must release the identifier
#[kani::proof]
#[kani::unwind(2)]
#[kani::stub(core::str::from_utf8, utf8_model)]
fn st_send_publish_v5_limit() {
    set_detail(true);
    let mut c = fam_client_connected(Version::V5_0);
    let l: u32 = kani::any();
    kani::assume(l >= 7 && l <= 11);
    c.maximum_packet_size_send = l;
    let id: u16 = kani::any();
    kani::assume(id != 0);
    use_ids(&mut c, &[id]);
    let pre = tm_of(&c);
    let p = mk_pub5(1, id, false);
    let sz = p.size();
    assert!(sz == 9, "harness: PUBLISH shape has 9 bytes");
    let ev = c.process_send_v5_0_publish(p);
    monitor(pre, &ev, &c);
    if (sz as u32) > l {
        assert!(count(&ev, is_send) == 0 && is_err(&sm(&ev, 0), MqttError::PacketTooLarge), "[C14] an oversize PUBLISH is refused");
        assert!(!c.pid_puback.contains(&id), "[C11] refused send records nothing");
        assert!(count(&ev, |e| is_released(e, id)) == 1 && !c.pid_man.is_used_id(id), "[C08] a refused send releases the identifier it carried (exactly once)");
    } else {
        assert!(is_send(&sm(&ev, 0)) && sm(&ev, 0).pkt.size == 9, "[C14] a PUBLISH within the limit is sent");
        assert!(c.pid_man.is_used_id(id) && c.pid_puback.contains(&id), "[C06] id held for PUBACK");
    }
    core::mem::forget(ev);
    core::mem::forget(c);
}

// automatic topic-alias mapping must not push a PUBLISH over the peer's limit
#[kani::proof]
#[kani::unwind(2)]
#[kani::stub(core::str::from_utf8, utf8_model)]
fn st_send_publish_v5_automap_limit() {
    set_detail(true);
    let mut c = fam_client_connected(Version::V5_0);
    c.auto_map_topic_alias_send = true;
    c.topic_alias_send = Some(TopicAliasSend::new(3));
    let l: u32 = kani::any();
    kani::assume(l >= 6 && l <= 12);
    c.maximum_packet_size_send = l;
    let pre = tm_of(&c);
    // QoS0 PUBLISH, topic "t", no properties, 1 payload byte: 7 bytes on the wire
    let body: [u8; 5] = [0, 1, b't', 0, 0x55];
    let arc: crate::mqtt::common::Arc<[u8]> = crate::mqtt::common::Arc::from(&body[..]);
    let p = v5_0::GenericPublish::<u16>::parse(0, arc).unwrap().0;
    assert!(p.size() == 7, "harness: PUBLISH shape has 7 bytes");
    let ev = c.process_send_v5_0_publish(p);
    monitor(pre, &ev, &c);
    let mut i = 0;
    let mut sent = 0;
    while i < ev.len() {
        let e = sm(&ev, i);
        if e.kind == K_SEND {
            sent += 1;
            assert!(e.pkt.size as u64 <= l as u64, "[C14] a PUBLISH rewritten by automatic alias mapping never exceeds the peer's Maximum Packet Size");
            assert!(e.pkt.alias >= 1 && e.pkt.alias <= 3 && !e.pkt.topic_empty, "[C13] a new automatic mapping sends the topic together with its alias");
        }
        i += 1;
    }
    if l < 7 {
        assert!(sent == 0, "[C14] oversize before mapping: refused");
    }
    kani::cover!(sent == 1, "a mapped PUBLISH is sent");
    core::mem::forget(ev);
    core::mem::forget(c);
}

// inbound: a frame larger than the locally announced maximum is answered with DISCONNECT 0x95 and not delivered
#[kani::proof]
#[kani::unwind(2)]
#[kani::stub(core::str::from_utf8, utf8_model)]
fn st_recv_packet_too_large() {
    set_detail(true);
    let mut c = fam_server_connected(Version::V5_0);
    let l: u32 = kani::any();
    kani::assume(l >= 1);
    c.maximum_packet_size_recv = l;
    let pre = tm_of(&c);
    // PINGREQ with an (invalid) 3-byte body: 5 bytes on the wire
    let raw = pbh::verif_raw(0xC0, &[1, 2, 3]);
    let ev = c.process_recv_packet(raw);
    monitor(pre, &ev, &c);
    kani::cover!(l == 4, "limit one below the frame size");
    kani::cover!(l == 5, "limit equal to the frame size");
    if l < 5 {
        assert!(count(&ev, is_recv) == 0, "[C14] a frame larger than the announced maximum is not delivered");
        let n = ev.len();
        assert!(n >= 3 && is_send(&sm(&ev, n - 3)) && is_close(&sm(&ev, n - 2)) && is_err(&sm(&ev, n - 1), MqttError::PacketTooLarge), "[C14,C19] oversize frame: DISCONNECT, close, error");
        assert!(sm(&ev, n - 3).pkt.ptype == 14 && sm(&ev, n - 3).pkt.rc == 0x95, "[C14] DISCONNECT carries Packet too large");
        assert!(c.status == ConnectionStatus::Disconnected, "[C14] connection given up");
    } else {
        assert!(count(&ev, |e| is_err(e, MqttError::PacketTooLarge)) == 0, "[C14] a frame within the limit is not rejected for its size");
    }
    core::mem::forget(ev);
    core::mem::forget(c);
}

// =================================================================== C06/C16 resume and restore
fn mk_pubrel311(id: u16) -> v3_1_1::GenericPubrel<u16> {
    v3_1_1::GenericPubrel::<u16>::builder().packet_id(id).build().unwrap()
}

// CONNACK (v3.1.1) received while connecting with a stored QoS1 PUBLISH and a stored PUBREL
#[kani::proof]
#[kani::unwind(2)]
#[kani::stub(core::str::from_utf8, utf8_model)]
fn st_recv_connack_v311_resume() {
    set_detail(true);
    let mut c = CC::new(Version::V3_1_1);
    c.status = ConnectionStatus::Connecting;
    c.is_client = true;
    c.need_store = true;
    let ka: u16 = kani::any();
    c.pingreq_keep_alive_ms = ka as u64 * 1000;
    c.pingreq_send_set = ka != 0; // armed by the CONNECT that was sent
    let i: u16 = kani::any();
    let k: u16 = kani::any();
    kani::assume(i != 0 && k != 0 && i != k);
    use_ids(&mut c, &[i, k]);
    c.pid_puback.insert(i);
    c.pid_pubcomp.insert(k);
    c.store.add(mk_pub311(1, i, true).try_into().unwrap()).unwrap();
    c.store.add(mk_pubrel311(k).try_into().unwrap()).unwrap();
    let sp: bool = kani::any();
    let pre = tm_of(&c);
    let raw = pbh::verif_raw(0x20, &[sp as u8, 0]);
    let ev = c.process_recv_v3_1_1_connack(raw);
    monitor(pre, &ev, &c);
    assert!(c.status == ConnectionStatus::Connected, "[C11] accepted CONNACK establishes the connection");
    if sp {
        assert!(ev.len() == 3, "[C06] resume: the stored packets then the CONNACK notification");
        let e0 = sm(&ev, 0);
        let e1 = sm(&ev, 1);
        assert!(is_send(&e0) && e0.pkt.ptype == 3 && e0.pkt.id == i as u32 && e0.pkt.dup && e0.pkt.qos == 1 && !e0.pkt.topic_empty, "[C06] first stored packet re-sent first: same id, DUP set, full topic");
        assert!(is_send(&e1) && e1.pkt.ptype == 6 && e1.pkt.id == k as u32, "[C06] stored PUBREL re-sent in store order with the same id");
        assert!(is_recv(&sm(&ev, 2)), "[C06] CONNACK delivered after the retransmissions were requested");
        assert!(sth::len(&c.store) == 2 && c.pid_man.is_used_id(i) && c.pid_man.is_used_id(k), "[C06] packets stay stored and ids held until acknowledged");
    } else {
        assert!(sth::len(&c.store) == 0 && !c.pid_man.is_used_id(i) && !c.pid_man.is_used_id(k), "[C06] session not present: store emptied and identifiers freed");
        assert!(c.pid_puback.len() == 0 && c.pid_pubcomp.len() == 0, "[C06] session not present: nothing awaits an acknowledgement");
        assert!(count(&ev, is_send) == 0 && ev.len() == 1 && is_recv(&sm(&ev, 0)), "[C06] nothing is retransmitted into a new session");
    }
    core::mem::forget(ev);
    core::mem::forget(c);
}

// restore_packets into a fresh object: wait sets, ids, order
#[kani::proof]
#[kani::unwind(2)]
#[kani::stub(core::str::from_utf8, utf8_model)]
fn st_restore_packets_v311() {
    let mut c = CC::new(Version::V3_1_1);
    let i: u16 = kani::any();
    let j: u16 = kani::any();
    let k: u16 = kani::any();
    kani::assume(i != 0 && j != 0 && k != 0);
    kani::assume(i != j && j != k && i != k);
    let mut v: Vec<GenericStorePacket<u16>> = Vec::new();
    v.push(mk_pub311(1, i, true).try_into().unwrap());
    v.push(mk_pub311(2, j, true).try_into().unwrap());
    v.push(mk_pubrel311(k).try_into().unwrap());
    c.restore_packets(v);
    assert!(sth::len(&c.store) == 3 && sth::id_at(&c.store, 0) == Some(i) && sth::id_at(&c.store, 1) == Some(j) && sth::id_at(&c.store, 2) == Some(k), "[C16] restored packets keep their order");
    assert!(c.pid_man.is_used_id(i) && c.pid_man.is_used_id(j) && c.pid_man.is_used_id(k), "[C16] restored identifiers are in use");
    assert!(c.pid_puback.contains(&i) && c.pid_pubrec.contains(&j) && c.pid_pubcomp.contains(&k), "[C16] each restored packet waits for the acknowledgement of its kind");
    assert!(c.pid_puback.len() == 1 && c.pid_pubrec.len() == 1 && c.pid_pubcomp.len() == 1, "[C16] nothing else is waited for");
    let a = c.acquire_packet_id().unwrap();
    assert!(a != i && a != j && a != k, "[C16] a restored identifier cannot be re-acquired");
    assert!(c.register_packet_id(i).is_err(), "[C16] a restored identifier cannot be registered again");
    core::mem::forget(c);
}

// malformed export: the same identifier twice (different kinds)
#[kani::proof]
#[kani::unwind(2)]
#[kani::stub(core::str::from_utf8, utf8_model)]
fn st_restore_packets_duplicate_id() {
    let mut c = CC::new(Version::V3_1_1);
    let i: u16 = kani::any();
    kani::assume(i != 0);
    let mut v: Vec<GenericStorePacket<u16>> = Vec::new();
    v.push(mk_pub311(1, i, true).try_into().unwrap());
    v.push(mk_pub311(2, i, true).try_into().unwrap());
    c.restore_packets(v);
    assert!(sth::len(&c.store) == 1 && sth::info(&c.store, i) == Some((1, true, false, false)), "[C16] a duplicate identifier in the export is skipped, the first entry is kept");
    assert!(c.pid_man.is_used_id(i) && c.pid_puback.contains(&i), "[C16] first entry restored");
    assert!(!c.pid_pubrec.contains(&i), "[C16] a skipped entry leaves nothing waiting for an acknowledgement");
    core::mem::forget(c);
}

// handled-id set export / restore round trip
#[kani::proof]
#[kani::unwind(2)]
fn st_handled_export_restore() {
    let mut c = CC::new(Version::V3_1_1);
    let h: u16 = kani::any();
    let g: u16 = kani::any();
    kani::assume(h != 0 && g != 0 && h != g);
    c.qos2_publish_handled.insert(h);
    c.qos2_publish_handled.insert(g);
    let exp = c.get_qos2_publish_handled();
    let mut f = CC::new(Version::V3_1_1);
    f.restore_qos2_publish_handled(exp);
    let q: u16 = kani::any();
    assert!(f.qos2_publish_handled.contains(&q) == (q == h || q == g), "[C16,C07] the restored handled-id set equals the exported one");
    assert!(c.qos2_publish_handled.contains(&q) == (q == h || q == g), "[C16] exporting does not change the set");
    core::mem::forget(c);
    core::mem::forget(f);
}

// =================================================================== server receives CONNECT (C05, C10, C15)
#[kani::proof]
#[kani::unwind(2)]
#[kani::stub(core::str::from_utf8, utf8_model)]
fn st_recv_connect_v311_server() {
    // a disconnected server object that served a connection before: connection-scoped leftovers symbolic
    let mut c = SC::new(Version::V3_1_1);
    let old_ka: u16 = kani::any();
    c.pingreq_recv_timeout_ms = old_ka as u64 * 1000 * 3 / 2;
    c.need_store = kani::any();
    let ka: u16 = kani::any();
    let clean: bool = kani::any();
    let b: [u8; 13] = [0, 4, b'M', b'Q', b'T', b'T', 4, (clean as u8) << 1, (ka >> 8) as u8, ka as u8, 0, 1, b'c'];
    let raw = pbh::verif_raw(0x10, &b);
    let pre = tm_of(&c);
    kani::cover!(ka == 0 && old_ka != 0, "keep-alive 0 after a connection with keep-alive");
    let ev = c.process_recv_v3_1_1_connect(raw);
    monitor(pre, &ev, &c);
    assert!(c.status == ConnectionStatus::Connecting && count(&ev, is_recv) == 1, "[C17] CONNECT accepted while disconnected");
    if ka == 0 {
        assert!(ev.len() == 1 && !c.pingreq_recv_set, "[C15,C10] a server never arms the receive timer for keep-alive 0 (whatever an earlier connection used)");
    } else {
        assert!(ev.len() == 2 && is_reset(&sm(&ev, 0), TimerKind::PingreqRecv, ka as u64 * 1500), "[C15] a server arms the 1.5 x keep-alive receive timer on CONNECT");
    }
    assert!(c.need_store == !clean, "[C10] persistence follows this CONNECT only");
    core::mem::forget(ev);
    core::mem::forget(c);
}

// v5.0 CONNECT carrying Topic Alias Maximum (all u16 values incl. 0)
#[kani::proof]
#[kani::unwind(2)]
#[kani::stub(core::str::from_utf8, utf8_model)]
fn st_recv_connect_v5_server_tam() {
    let mut c = SC::new(Version::V5_0);
    let ka: u16 = kani::any();
    let v: u16 = kani::any();
    let b: [u8; 16] = [0, 4, b'M', b'Q', b'T', b'T', 5, 0x02, (ka >> 8) as u8, ka as u8, 3, 0x22, (v >> 8) as u8, v as u8, 0, 0];
    let raw = pbh::verif_raw(0x10, &b);
    let pre = tm_of(&c);
    kani::cover!(v == 0, "Topic Alias Maximum 0");
    let ev = c.process_recv_v5_0_connect(raw);
    monitor(pre, &ev, &c);
    assert!(c.status == ConnectionStatus::Connecting && count(&ev, is_recv) == 1, "[C05] valid CONNECT delivered");
    assert!(c.topic_alias_send.is_some() == (v != 0), "[C13] the send-side alias table exists exactly when the peer's Topic Alias Maximum is > 0");
    core::mem::forget(ev);
    core::mem::forget(c);
}

// QoS1/2 PUBLISH accepted without an error is either requested for sending or stored (never silently dropped)
fn publish_never_dropped(v5: bool) {
    let mut c = CC::new(v311_or_v5(v5));
    c.is_client = true;
    let st: u8 = kani::any();
    kani::assume(st <= 2);
    c.status = match st {
        0 => ConnectionStatus::Disconnected,
        1 => ConnectionStatus::Connecting,
        _ => ConnectionStatus::Connected,
    };
    c.need_store = kani::any();
    c.offline_publish = kani::any();
    if c.offline_publish {
        kani::assume(c.need_store);
    }
    let id: u16 = kani::any();
    kani::assume(id != 0);
    use_ids(&mut c, &[id]);
    let q2: bool = kani::any();
    let qos = if q2 { 2 } else { 1 };
    let pre = tm_of(&c);
    kani::cover!(st == 1 && c.need_store && !c.offline_publish, "persistent session, still connecting");
    kani::cover!(st == 0 && c.need_store && !c.offline_publish, "persistent session, between two connections");
    let ev = if v5 { c.process_send_v5_0_publish(mk_pub5(qos, id, false)) } else { c.process_send_v3_1_1_publish(mk_pub311(qos, id, false)) };
    let errs = count(&ev, is_any_err);
    let sent = count(&ev, is_send);
    let stored = sth::has(&c.store, id);
    if errs == 0 {
        assert!(sent == 1 || stored, "[C06] a QoS>0 PUBLISH accepted without an error event is requested for sending or kept in the store, never silently dropped");
        assert!(c.pid_man.is_used_id(id), "[C06] the identifier of an accepted PUBLISH is held");
        assert!((sent == 1) == (st == 2), "[C11] passed to the transport exactly when connected");
        if stored {
            assert!(sth::info(&c.store, id) == Some((qos, true, false, false)), "[C06] stored copy has DUP set, its QoS and the full topic");
        }
        if c.need_store && st == 2 {
            assert!(stored, "[C06] on a persistent session every sent QoS>0 PUBLISH is stored");
        }
    } else {
        assert!(sent == 0 && !stored, "[C11] a refused PUBLISH is neither sent nor stored");
        assert!(!c.pid_man.is_used_id(id) && count(&ev, |e| is_released(e, id)) == 1, "[C08] a refused send releases its identifier exactly once");
    }
    core::mem::forget(ev);
    core::mem::forget(c);
}
#[kani::proof]
#[kani::unwind(2)]
#[kani::stub(core::str::from_utf8, utf8_model)]
fn st_send_publish_v311_never_dropped() {
    publish_never_dropped(false)
}
#[kani::proof]
#[kani::unwind(2)]
#[kani::stub(core::str::from_utf8, utf8_model)]
fn st_send_publish_v5_never_dropped() {
    publish_never_dropped(true)
}

// the application erases a stored PUBLISH: slot freed, id released, only that packet
#[kani::proof]
#[kani::unwind(2)]
#[kani::stub(core::str::from_utf8, utf8_model)]
fn st_erase_stored_publish_v5() {
    let mut c = fam_client_connected(Version::V5_0);
    c.need_store = true;
    let i: u16 = kani::any();
    let k: u16 = kani::any();
    kani::assume(i != 0 && k != 0 && i != k);
    let q2: bool = kani::any();
    use_ids(&mut c, &[i, k]);
    if q2 {
        c.pid_pubrec.insert(i);
    } else {
        c.pid_puback.insert(i);
    }
    c.pid_pubcomp.insert(k);
    c.store.add(mk_pub5(if q2 { 2 } else { 1 }, i, true).try_into().unwrap()).unwrap();
    c.store.add(v5_0::GenericPubrel::<u16>::builder().packet_id(k).build().unwrap().try_into().unwrap()).unwrap();
    let m: u16 = kani::any();
    kani::assume(m >= 2);
    c.publish_send_max = Some(m);
    c.publish_send_count = 2;
    let x: u16 = kani::any();
    kani::cover!(x == i && q2, "erase a stored QoS2 PUBLISH");
    kani::cover!(x == k, "erase called with the id of a stored PUBREL");
    let ev = c.erase_stored_publish(x);
    if x == i {
        assert!(!sth::has(&c.store, i) && sth::len(&c.store) == 1, "[C06] the application erased exactly that PUBLISH");
        assert!(c.publish_send_count == 1 && c.get_receive_maximum_vacancy_for_send() == Some(m - 1), "[C12] an erased exchange frees its Receive Maximum slot (QoS1 and QoS2 alike)");
        assert!(ev.len() == 1 && is_released(&sm(&ev, 0), i) && !c.pid_man.is_used_id(i), "[C08] erasing releases the identifier exactly once");
        assert!(!c.pid_puback.contains(&i) && !c.pid_pubrec.contains(&i), "[C06] nothing is awaited for an erased PUBLISH");
    } else {
        assert!(ev.len() == 0 && sth::len(&c.store) == 2 && c.publish_send_count == 2, "[C06] erase of anything but a stored PUBLISH changes nothing");
        assert!(c.pid_man.is_used_id(i) && c.pid_man.is_used_id(k), "[C08] nothing released");
    }
    assert!(sth::has(&c.store, k) && c.pid_pubcomp.contains(&k) && c.pid_man.is_used_id(k), "[C06] a stored PUBREL is never erased by erase_stored_publish");
    core::mem::forget(ev);
    core::mem::forget(c);
}

// one-packet forms of the above (the two-packet form exceeds 28 GB)
fn erase_stored_one(q2: bool) {
    let mut c = CC::new(Version::V5_0);
    c.is_client = true;
    c.status = ConnectionStatus::Connected;
    c.need_store = true;
    let i: u16 = kani::any();
    kani::assume(i != 0);
    use_ids(&mut c, &[i]);
    if q2 {
        c.pid_pubrec.insert(i);
    } else {
        c.pid_puback.insert(i);
    }
    c.store.add(mk_pub5(if q2 { 2 } else { 1 }, i, true).try_into().unwrap()).unwrap();
    let m: u16 = kani::any();
    let cnt: u16 = kani::any();
    kani::assume(cnt >= 1 && cnt <= m);
    c.publish_send_max = Some(m);
    c.publish_send_count = cnt;
    let ev = c.erase_stored_publish(i);
    assert!(!sth::has(&c.store, i) && sth::len(&c.store) == 0, "[C06] the application erased exactly that PUBLISH");
    assert!(c.publish_send_count == cnt - 1 && c.get_receive_maximum_vacancy_for_send() == Some(m - (cnt - 1)), "[C12] an erased exchange frees its Receive Maximum slot (QoS1 and QoS2 alike)");
    assert!(ev.len() == 1 && is_released(&sm(&ev, 0), i) && !c.pid_man.is_used_id(i), "[C08] erasing releases the identifier exactly once");
    assert!(!c.pid_puback.contains(&i) && !c.pid_pubrec.contains(&i), "[C06] nothing is awaited for an erased PUBLISH");
    core::mem::forget(ev);
    core::mem::forget(c);
}
#[kani::proof]
#[kani::unwind(2)]
#[kani::stub(core::str::from_utf8, utf8_model)]
fn st_erase_stored_one_v5_q1() {
    erase_stored_one(false)
}
#[kani::proof]
#[kani::unwind(2)]
#[kani::stub(core::str::from_utf8, utf8_model)]
fn st_erase_stored_one_v5_q2() {
    erase_stored_one(true)
}

// =================================================================== C07: PUBREC sent by the application (v5.0)
#[kani::proof]
#[kani::unwind(2)]
fn st_send_pubrec_v5_handled() {
    let mut c = fam_server_connected(Version::V5_0);
    let h: u16 = kani::any();
    let g: u16 = kani::any();
    kani::assume(h != 0 && g != 0 && h != g);
    c.qos2_publish_handled.insert(h);
    c.qos2_publish_handled.insert(g);
    c.publish_recv.insert(h);
    c.publish_recv.insert(g);
    c.publish_recv_max = Some(2);
    let rcb: u8 = kani::any();
    kani::assume(PubrecReasonCode::try_from(rcb).is_ok());
    let rc = PubrecReasonCode::try_from(rcb).unwrap();
    let with_rc: bool = kani::any();
    let mut b = v5_0::GenericPubrec::<u16>::builder().packet_id(h);
    if with_rc {
        b = b.reason_code(rc);
    }
    let p = b.build().unwrap();
    let pre = tm_of(&c);
    kani::cover!(with_rc && rcb == 0x10, "PUBREC No matching subscribers (a success code)");
    kani::cover!(with_rc && rcb >= 0x80, "PUBREC with an error code");
    let ev = c.process_send_v5_0_pubrec(p);
    monitor(pre, &ev, &c);
    let refused = with_rc && rcb >= 0x80;
    assert!(c.qos2_publish_handled.contains(&h) == !refused, "[C07] only an error PUBREC makes the next PUBLISH with that id a new message");
    assert!(c.publish_recv.contains(&h) == !refused, "[C12] only an error PUBREC frees the inbound Receive Maximum slot");
    assert!(c.qos2_publish_handled.contains(&g) && c.publish_recv.contains(&g), "[C07] other exchanges untouched");
    assert!(is_send(&sm(&ev, 0)), "[C11] PUBREC passed to the transport when connected");
    core::mem::forget(ev);
    core::mem::forget(c);
}


// =================================================================== recv(): framing error and one-packet-per-call (C09 F4, C19)
fn recv_framing_error(v5: bool) {
    let mut c = fam_client_connected(v311_or_v5(v5));
    let x: [u8; 5] = kani::any();
    // concrete length bytes (see packet_builder_h.rs F3): only the fixed-header byte is symbolic
    let b: [u8; 5] = [x[0], 0x81, 0xFE, 0x80, 0xC3];
    let pre = tm_of(&c);
    let mut cur = Cursor::new(&b[..]);
    let ev = c.recv(&mut cur);
    monitor(pre, &ev, &c);
    let n = ev.len();
    assert!(cur.position() == 5, "[C09] the framing error consumes the five header bytes");
    assert!(n == 2 + pre.send as usize + pre.resp as usize, "[C19] framing error: cancels for the armed timers, close, error");
    assert!(is_close(&sm(&ev, n - 2)) && is_err(&sm(&ev, n - 1), MqttError::MalformedPacket), "[C09,C19] over-long Remaining Length: close request then MalformedPacket error");
    assert!(count(&ev, is_recv) == 0, "[C05] nothing is delivered from a malformed frame");
    core::mem::forget(ev);
    core::mem::forget(c);
}
#[kani::proof]
#[kani::unwind(2)]
fn st_recv_framing_error_v311() {
    recv_framing_error(false)
}
#[kani::proof]
#[kani::unwind(2)]
fn st_recv_framing_error_v5() {
    recv_framing_error(true)
}

// two back-to-back packets in one buffer: each recv() call handles exactly one
#[kani::proof]
#[kani::unwind(2)]
fn st_recv_two_packets_one_buffer() {
    let mut c = fam_client_connected(Version::V3_1_1);
    c.pingresp_recv_set = false;
    let i: u16 = kani::any();
    kani::assume(i != 0);
    use_ids(&mut c, &[i]);
    c.pid_puback.insert(i);
    // PINGRESP then PUBACK(i)
    let b: [u8; 6] = [0xD0, 0, 0x40, 2, (i >> 8) as u8, i as u8];
    let mut cur = Cursor::new(&b[..]);
    let pre = tm_of(&c);
    let ev1 = c.recv(&mut cur);
    monitor(pre, &ev1, &c);
    assert!(cur.position() == 2, "[C09] the first call stops at the first frame boundary");
    assert!(ev1.len() == 1 && is_recv(&sm(&ev1, 0)) && c.pid_puback.contains(&i), "[C09] the first call yields the events of exactly one packet");
    let pre2 = tm_of(&c);
    let ev2 = c.recv(&mut cur);
    monitor(pre2, &ev2, &c);
    assert!(cur.position() == 6, "[C09] the second call consumes the second frame");
    assert!(count(&ev2, |e| is_released(e, i)) == 1 && count(&ev2, is_recv) == 1, "[C09] the second packet is processed by the second call");
    let ev3 = c.recv(&mut cur);
    assert!(ev3.len() == 0, "[C09] an exhausted buffer yields nothing");
    core::mem::forget(ev1);
    core::mem::forget(ev2);
    core::mem::forget(ev3);
    core::mem::forget(c);
}

// =================================================================== C13 sender-side aliases vs an independent receiver model
fn topic_of(k: u8) -> &'static str {
    if k == 0 {
        "a"
    } else {
        "b"
    }
}
fn byte_of(k: u8) -> u8 {
    if k == 0 {
        b'a'
    } else {
        b'b'
    }
}

/// v5.0 QoS0 PUBLISH with topic byte `t` (0 = empty topic) and Topic Alias property `alias`
/// (built through the public builder: parsing a property block is the XL part of v5 receive steps)
fn mk_pub5_alias(t: u8, alias: u16) -> Option<v5_0::GenericPublish<u16>> {
    let ta = crate::mqtt::packet::TopicAlias::new(alias).ok()?;
    let props = alloc::vec![Property::TopicAlias(ta)];
    let pl = [0x55u8];
    let b = v5_0::GenericPublish::<u16>::builder().qos(Qos::AtMostOnce).payload(&pl[..]).props(props);
    if t == 0 {
        b.build().ok()
    } else {
        let tb = [t];
        let topic = unsafe { core::str::from_utf8_unchecked(&tb[..]) };
        b.topic_name(topic).ok()?.build().ok()
    }
}

// manual alias on a PUBLISH that carries its topic: (re)binds the alias on both sides
#[kani::proof]
#[kani::unwind(2)]
#[kani::stub(core::str::from_utf8, utf8_model)]
fn st_send_publish_v5_manual_alias_bind() {
    set_detail(true);
    let mut c = fam_client_connected(Version::V5_0);
    let mut tas = TopicAliasSend::new(3);
    // receiver model: r[alias] = topic byte (0 = unbound)
    let mut r: [u8; 4] = [0; 4];
    // two earlier aliased publishes on this connection
    let k1: u8 = kani::any();
    let k2: u8 = kani::any();
    let a1: u16 = kani::any();
    let a2: u16 = kani::any();
    kani::assume(k1 <= 1 && k2 <= 1 && a1 >= 1 && a1 <= 3 && a2 >= 1 && a2 <= 3);
    tas.insert_or_update(topic_of(k1), a1);
    r[a1 as usize] = byte_of(k1);
    tas.insert_or_update(topic_of(k2), a2);
    r[a2 as usize] = byte_of(k2);
    c.topic_alias_send = Some(tas);
    // the step: PUBLISH topic kx with alias ax (any u16 >= 1)
    let kx: u8 = kani::any();
    let ax: u16 = kani::any();
    kani::assume(kx <= 1 && ax >= 1);
    kani::cover!(ax == a2 && kx != k2, "re-binding an alias to another topic");
    kani::cover!(ax > 3, "alias above the peer's Topic Alias Maximum");
    let p = mk_pub5_alias(byte_of(kx), ax).unwrap();
    let pre = tm_of(&c);
    let ev = c.process_send_v5_0_publish(p);
    monitor(pre, &ev, &c);
    if ax > 3 {
        assert!(count(&ev, is_send) == 0 && count(&ev, is_any_err) == 1, "[C13] an alias above the peer's Topic Alias Maximum is never sent");
    } else {
        let e = sm(&ev, 0);
        assert!(is_send(&e) && e.pkt.alias == ax && !e.pkt.topic_empty && e.pkt.topic0 == byte_of(kx), "[C13] the PUBLISH goes out with its topic and the alias");
        r[ax as usize] = byte_of(kx); // a conformant receiver binds the alias now
    }
    // the sender's table must equal what the receiver now holds
    let t = c.topic_alias_send.as_ref().unwrap();
    let mut q: u16 = 1;
    while q <= 3 {
        let got = t.peek(q).map(|s| s.as_bytes()[0]).unwrap_or(0);
        assert!(got == r[q as usize], "[C13] sender-side alias table equals the bindings the receiver holds");
        q += 1;
    }
    core::mem::forget(ev);
    core::mem::forget(c);
}

// empty topic + alias: only sent for an alias bound on this connection; auto-replace uses a live binding
#[kani::proof]
#[kani::unwind(2)]
#[kani::stub(core::str::from_utf8, utf8_model)]
fn st_send_publish_v5_alias_resolve() {
    set_detail(true);
    let mut c = fam_client_connected(Version::V5_0);
    let has_table: bool = kani::any();
    let mut r: [u8; 4] = [0; 4];
    if has_table {
        let mut tas = TopicAliasSend::new(3);
        let k1: u8 = kani::any();
        let a1: u16 = kani::any();
        kani::assume(k1 <= 1 && a1 >= 1 && a1 <= 3);
        tas.insert_or_update(topic_of(k1), a1);
        r[a1 as usize] = byte_of(k1);
        c.topic_alias_send = Some(tas);
    }
    let auto_replace: bool = kani::any();
    c.auto_replace_topic_alias_send = auto_replace;
    let pre = tm_of(&c);
    if auto_replace {
        // plain PUBLISH of topic kx: may be rewritten to (empty topic, alias)
        let kx: u8 = kani::any();
        kani::assume(kx <= 1);
        let body: [u8; 5] = [0, 1, byte_of(kx), 0, 0x55];
        let arc: crate::mqtt::common::Arc<[u8]> = crate::mqtt::common::Arc::from(&body[..]);
        let p = v5_0::GenericPublish::<u16>::parse(0, arc).unwrap().0;
        let ev = c.process_send_v5_0_publish(p);
        monitor(pre, &ev, &c);
        let e = sm(&ev, 0);
        assert!(is_send(&e), "[C11] QoS0 PUBLISH sent when connected");
        if e.pkt.topic_empty {
            assert!(e.pkt.alias >= 1 && e.pkt.alias <= 3 && r[e.pkt.alias as usize] == byte_of(kx), "[C13] an automatically replaced topic resolves at the receiver to the topic the application asked for");
        } else {
            assert!(e.pkt.topic0 == byte_of(kx), "[C13] otherwise the topic is sent as given");
        }
        core::mem::forget(ev);
    } else {
        let ax: u16 = kani::any();
        kani::assume(ax >= 1);
        let p = mk_pub5_alias(0, ax).unwrap();
        kani::cover!(has_table && ax <= 3 && r[ax as usize] != 0, "empty topic with a bound alias");
        kani::cover!(has_table && ax <= 3 && r[ax as usize] == 0, "empty topic with an unbound alias");
        let ev = c.process_send_v5_0_publish(p);
        monitor(pre, &ev, &c);
        let bound = has_table && ax <= 3 && r[ax as usize] != 0;
        assert!((count(&ev, is_send) == 1) == bound, "[C13] an empty topic name is only sent with an alias that an earlier PUBLISH on this connection bound");
        if !bound {
            assert!(count(&ev, is_any_err) == 1, "[C13] otherwise the send is refused with an error");
        }
        core::mem::forget(ev);
    }
    core::mem::forget(c);
}

// receive side: aliased PUBLISH delivered with the bound topic or rejected as Topic Alias invalid
#[kani::proof]
#[kani::unwind(2)]
#[kani::stub(core::str::from_utf8, utf8_model)]
fn st_recv_publish_v5_alias() {
    set_detail(true);
    let mut c = fam_server_connected(Version::V5_0);
    let has_table: bool = kani::any();
    let k1: u8 = kani::any();
    let a1: u16 = kani::any();
    kani::assume(k1 <= 1 && a1 >= 1 && a1 <= 3);
    if has_table {
        let mut t = TopicAliasRecv::new(3);
        t.insert_or_update(topic_of(k1), a1);
        c.topic_alias_recv = Some(t);
    }
    let ax: u16 = kani::any();
    kani::assume(ax >= 1);
    let with_topic: bool = kani::any();
    let kx: u8 = kani::any();
    kani::assume(kx <= 1);
    let pre = tm_of(&c);
    let raw = if with_topic {
        pbh::verif_raw(0x30, &[0, 1, byte_of(kx), 3, 0x23, (ax >> 8) as u8, ax as u8, 0x55])
    } else {
        pbh::verif_raw(0x30, &[0, 0, 3, 0x23, (ax >> 8) as u8, ax as u8, 0x55])
    };
    let ev = c.process_recv_v5_0_publish(raw);
    monitor(pre, &ev, &c);
    let in_range = has_table && ax <= 3;
    if with_topic {
        if in_range {
            assert!(count(&ev, is_recv) == 1 && c.topic_alias_recv.as_ref().unwrap().get(ax).map(|s| s.as_bytes()[0]) == Some(byte_of(kx)), "[C13] a PUBLISH with topic and alias is delivered and binds the alias");
        } else {
            assert!(count(&ev, is_recv) == 0 && count(&ev, |e| is_err(e, MqttError::TopicAliasInvalid)) == 1, "[C13] an alias outside 1..=Topic Alias Maximum is rejected as Topic Alias invalid");
        }
    } else {
        let bound = in_range && ax == a1;
        if bound {
            let n = ev.len();
            let e = sm(&ev, n - 1);
            assert!(is_recv(&e) && e.pkt.topic0 == byte_of(k1) && !e.pkt.topic_empty, "[C13] an aliased PUBLISH is delivered with the topic bound on this connection");
        } else {
            assert!(count(&ev, is_recv) == 0 && count(&ev, |e| is_err(e, MqttError::TopicAliasInvalid)) == 1, "[C13] an unknown alias is rejected as Topic Alias invalid");
            let n = ev.len();
            assert!(is_send(&sm(&ev, n - 3)) && sm(&ev, n - 3).pkt.rc == 0x94 && is_close(&sm(&ev, n - 2)), "[C13,C19] DISCONNECT Topic Alias invalid, then close");
        }
    }
    core::mem::forget(ev);
    core::mem::forget(c);
}

// v5.0 CONNECT without properties received by a server (keep-alive arithmetic at full width)
#[kani::proof]
#[kani::unwind(2)]
#[kani::stub(core::str::from_utf8, utf8_model)]
fn st_recv_connect_v5_server() {
    let mut c = SC::new(Version::V5_0);
    let old_ka: u16 = kani::any();
    c.pingreq_recv_timeout_ms = old_ka as u64 * 1000 * 3 / 2;
    let ka: u16 = kani::any();
    let clean: bool = kani::any();
    let b: [u8; 14] = [0, 4, b'M', b'Q', b'T', b'T', 5, (clean as u8) << 1, (ka >> 8) as u8, ka as u8, 0, 0, 1, b'c'];
    let raw = pbh::verif_raw(0x10, &b);
    let pre = tm_of(&c);
    kani::cover!(ka == 65535, "maximum keep-alive");
    let ev = c.process_recv_v5_0_connect(raw);
    monitor(pre, &ev, &c);
    assert!(c.status == ConnectionStatus::Connecting && count(&ev, is_recv) == 1, "[C17] CONNECT accepted while disconnected");
    if ka == 0 {
        assert!(ev.len() == 1 && !c.pingreq_recv_set, "[C15,C10] a server never arms the receive timer for keep-alive 0 (whatever an earlier connection used)");
    } else {
        assert!(ev.len() == 2 && is_reset(&sm(&ev, 0), TimerKind::PingreqRecv, ka as u64 * 1500), "[C15] a server arms the 1.5 x keep-alive receive timer on CONNECT");
    }
    assert!(c.topic_alias_send.is_none() && c.publish_send_max.is_none() && c.maximum_packet_size_send == MQTT_PACKET_SIZE_NO_LIMIT, "[C10] nothing negotiated without properties");
    core::mem::forget(ev);
    core::mem::forget(c);
}

// restore_packets, v5.0 packets
#[kani::proof]
#[kani::unwind(2)]
#[kani::stub(core::str::from_utf8, utf8_model)]
fn st_restore_packets_v5() {
    let mut c = CC::new(Version::V5_0);
    let i: u16 = kani::any();
    let j: u16 = kani::any();
    let k: u16 = kani::any();
    kani::assume(i != 0 && j != 0 && k != 0);
    kani::assume(i != j && j != k && i != k);
    let mut v: Vec<GenericStorePacket<u16>> = Vec::new();
    v.push(mk_pub5(1, i, true).try_into().unwrap());
    v.push(mk_pub5(2, j, true).try_into().unwrap());
    v.push(v5_0::GenericPubrel::<u16>::builder().packet_id(k).build().unwrap().try_into().unwrap());
    c.restore_packets(v);
    assert!(sth::len(&c.store) == 3 && sth::id_at(&c.store, 0) == Some(i) && sth::id_at(&c.store, 1) == Some(j) && sth::id_at(&c.store, 2) == Some(k), "[C16] restored packets keep their order");
    assert!(c.pid_man.is_used_id(i) && c.pid_man.is_used_id(j) && c.pid_man.is_used_id(k), "[C16] restored identifiers are in use");
    assert!(c.pid_puback.contains(&i) && c.pid_pubrec.contains(&j) && c.pid_pubcomp.contains(&k), "[C16] each restored packet waits for the acknowledgement of its kind");
    assert!(c.pid_puback.len() == 1 && c.pid_pubrec.len() == 1 && c.pid_pubcomp.len() == 1, "[C16] nothing else is waited for");
    core::mem::forget(c);
}

// send_stored under a peer limit: oversize stored packets (PUBLISH and PUBREL alike) are dropped and released
#[kani::proof]
#[kani::unwind(2)]
#[kani::stub(core::str::from_utf8, utf8_model)]
fn st_send_stored_limit_v5() {
    set_detail(true);
    let mut c = fam_client_connected(Version::V5_0);
    c.need_store = true;
    let i: u16 = kani::any();
    let k: u16 = kani::any();
    kani::assume(i != 0 && k != 0 && i != k);
    use_ids(&mut c, &[i, k]);
    c.pid_puback.insert(i);
    c.pid_pubcomp.insert(k);
    c.store.add(mk_pub5(1, i, true).try_into().unwrap()).unwrap(); // 9 bytes
    c.store.add(v5_0::GenericPubrel::<u16>::builder().packet_id(k).build().unwrap().try_into().unwrap()).unwrap(); // 4 bytes
    let l: u32 = kani::any();
    kani::assume(l >= 1);
    c.maximum_packet_size_send = l;
    kani::cover!(l == 3, "both oversize");
    kani::cover!(l == 8, "only the PUBLISH oversize");
    let ev = c.send_stored();
    let mut n = 0;
    let mut idx = 0;
    while idx < ev.len() {
        let e = sm(&ev, idx);
        if e.kind == K_SEND {
            assert!(e.pkt.size as u64 <= l as u64, "[C14] no retransmitted stored packet exceeds the peer's Maximum Packet Size");
            n += 1;
        }
        idx += 1;
    }
    assert!(n == (l >= 9) as usize + (l >= 4) as usize, "[C06] every stored packet within the limit is retransmitted");
    assert!(sth::has(&c.store, i) == (l >= 9) && sth::has(&c.store, k) == (l >= 4), "[C14] oversize stored packets are dropped from the store");
    assert!(c.pid_man.is_used_id(i) == (l >= 9) && c.pid_man.is_used_id(k) == (l >= 4), "[C14] the identifier of a dropped stored packet is released");
    assert!(count(&ev, |e| is_released(e, i)) == (l < 9) as usize && count(&ev, |e| is_released(e, k)) == (l < 4) as usize, "[C08] each release announced exactly once");
    core::mem::forget(ev);
    core::mem::forget(c);
}

// one-packet forms of the above (the two-packet form does not finish within 50 min / 20 GB)
fn send_stored_limit_one(pubrel: bool) {
    set_detail(true);
    let mut c = CC::new(Version::V5_0);
    c.is_client = true;
    c.status = ConnectionStatus::Connected;
    c.need_store = true;
    let k: u16 = kani::any();
    kani::assume(k != 0);
    use_ids(&mut c, &[k]);
    let sz: u32 = if pubrel { 4 } else { 9 };
    if pubrel {
        c.pid_pubcomp.insert(k);
        c.store.add(v5_0::GenericPubrel::<u16>::builder().packet_id(k).build().unwrap().try_into().unwrap()).unwrap(); // 4 bytes
    } else {
        c.pid_puback.insert(k);
        c.store.add(mk_pub5(1, k, true).try_into().unwrap()).unwrap(); // 9 bytes
    }
    let l: u32 = kani::any();
    kani::assume(l >= 1);
    c.maximum_packet_size_send = l;
    kani::cover!(l == sz - 1, "one byte too large");
    kani::cover!(l == sz, "exactly the limit");
    let ev = c.send_stored();
    let mut n = 0;
    let mut idx = 0;
    while idx < ev.len() {
        let e = sm(&ev, idx);
        if e.kind == K_SEND {
            assert!(e.pkt.size as u64 <= l as u64, "[C14] no retransmitted stored packet exceeds the peer's Maximum Packet Size");
            n += 1;
        }
        idx += 1;
    }
    assert!(n == (l >= sz) as usize, "[C06] a stored packet within the limit is retransmitted");
    assert!(sth::has(&c.store, k) == (l >= sz), "[C14] an oversize stored packet is dropped from the store");
    assert!(c.pid_man.is_used_id(k) == (l >= sz), "[C14] the identifier of a dropped stored packet is released");
    assert!(count(&ev, |e| is_released(e, k)) == (l < sz) as usize, "[C08] the release is announced exactly once");
    core::mem::forget(ev);
    core::mem::forget(c);
}
#[kani::proof]
#[kani::unwind(2)]
fn st_send_stored_limit_v5_pubrel() {
    send_stored_limit_one(true)
}
#[kani::proof]
#[kani::unwind(2)]
#[kani::stub(core::str::from_utf8, utf8_model)]
fn st_send_stored_limit_v5_publish() {
    send_stored_limit_one(false)
}

// PUBREL sent by the application: connected (sent, PUBCOMP awaited) or queued on a persistent session while not connected
#[kani::proof]
#[kani::unwind(2)]
fn st_send_pubrel_states_v311() {
    let mut c = CC::new(Version::V3_1_1);
    c.is_client = true;
    let st: u8 = kani::any();
    kani::assume(st <= 2);
    c.status = match st {
        0 => ConnectionStatus::Disconnected,
        1 => ConnectionStatus::Connecting,
        _ => ConnectionStatus::Connected,
    };
    c.need_store = kani::any();
    let ka: u16 = kani::any();
    c.pingreq_keep_alive_ms = ka as u64 * 1000;
    c.pingreq_send_set = st != 0 && ka != 0;
    let k: u16 = kani::any();
    kani::assume(k != 0);
    use_ids(&mut c, &[k]);
    let pre = tm_of(&c);
    kani::cover!(st == 0 && c.need_store, "PUBREL queued between two connections of a persistent session");
    let ev = c.process_send_v3_1_1_pubrel(mk_pubrel311(k));
    monitor(pre, &ev, &c);
    let allowed = st == 2 || c.need_store;
    if allowed {
        assert!(count(&ev, is_any_err) == 0 && (count(&ev, is_send) == 1) == (st == 2), "[C11] PUBREL passed to the transport exactly when connected");
        assert!(c.pid_man.is_used_id(k), "[C06] the identifier is held until PUBCOMP");
        assert!(sth::has(&c.store, k) == c.need_store, "[C06] on a persistent session every PUBREL is stored");
        assert!(c.pid_pubcomp.contains(&k), "[C06] an accepted PUBREL waits for its PUBCOMP (also when it is sent later from the store)");
    } else {
        assert!(ev.len() == 1 && is_err(&sm(&ev, 0), MqttError::PacketNotAllowedToSend), "[C11] PUBREL refused while not connected on a non-persistent session");
        assert!(!sth::has(&c.store, k) && !c.pid_pubcomp.contains(&k), "[C11] refused send records nothing");
    }
    core::mem::forget(ev);
    core::mem::forget(c);
}

// =================================================================== C12: retransmitted stored packets count; inbound limit
#[kani::proof]
#[kani::unwind(2)]
#[kani::stub(core::str::from_utf8, utf8_model)]
fn st_send_connack_v5_resume_count() {
    set_detail(true);
    // server that received CONNECT(Receive Maximum M, Session Expiry > 0) and holds one stored QoS1 PUBLISH
    let mut c = SC::new(Version::V5_0);
    c.status = ConnectionStatus::Connecting;
    c.need_store = true;
    let m: u16 = kani::any();
    kani::assume(m >= 1);
    c.publish_send_max = Some(m);
    c.publish_send_count = 0;
    let i: u16 = kani::any();
    kani::assume(i != 0);
    use_ids(&mut c, &[i]);
    c.pid_puback.insert(i);
    c.store.add(mk_pub5(1, i, true).try_into().unwrap()).unwrap();
    let pre = tm_of(&c);
    let connack = v5_0::Connack::parse(&[1, 0, 0]).unwrap().0;
    let ev = c.process_send_v5_0_connack(connack);
    monitor(pre, &ev, &c);
    assert!(c.status == ConnectionStatus::Connected && ev.len() == 2, "[C06] CONNACK then the stored packet");
    assert!(is_send(&sm(&ev, 0)) && sm(&ev, 0).pkt.ptype == 2, "[C06] CONNACK goes out first");
    let e = sm(&ev, 1);
    assert!(is_send(&e) && e.pkt.ptype == 3 && e.pkt.id == i as u32 && e.pkt.dup, "[C06] stored PUBLISH re-sent right after the CONNACK with DUP set");
    assert!(c.get_receive_maximum_vacancy_for_send() == Some(m - 1), "[C12] a retransmitted stored exchange counts against the peer's Receive Maximum");
    // its acknowledgement then completes the exchange without wrapping
    let raw = pbh::verif_raw(0x40, &[(i >> 8) as u8, i as u8]);
    let pre2 = tm_of(&c);
    let ev2 = c.process_recv_v5_0_puback(raw);
    monitor(pre2, &ev2, &c);
    assert!(c.get_receive_maximum_vacancy_for_send() == Some(m), "[C12] vacancy returns to M when all exchanges complete");
    assert!(count(&ev2, |x| is_released(x, i)) == 1, "[C08] id released by the PUBACK");
    core::mem::forget(ev);
    core::mem::forget(ev2);
    core::mem::forget(c);
}

#[kani::proof]
#[kani::unwind(2)]
#[kani::stub(core::str::from_utf8, utf8_model)]
fn st_recv_publish_v5_recv_max() {
    set_detail(true);
    let mut c = fam_client_connected(Version::V5_0);
    c.auto_pub_response = false;
    // locally announced Receive Maximum 2, peer has a and b outstanding (or only a)
    c.publish_recv_max = Some(2);
    let a: u16 = kani::any();
    let b: u16 = kani::any();
    kani::assume(a != 0 && b != 0 && a != b);
    c.publish_recv.insert(a);
    let full: bool = kani::any();
    if full {
        c.publish_recv.insert(b);
    }
    let r: u16 = kani::any();
    kani::assume(r != 0 && r != a && r != b);
    let q2: bool = kani::any();
    let pre = tm_of(&c);
    let body: [u8; 7] = [0, 1, b't', (r >> 8) as u8, r as u8, 0, 0x55];
    let raw = pbh::verif_raw(if q2 { 0x34 } else { 0x32 }, &body);
    let ev = c.process_recv_v5_0_publish(raw);
    monitor(pre, &ev, &c);
    if full {
        let n = ev.len();
        assert!(count(&ev, is_recv) == 0, "[C12] a PUBLISH beyond the announced Receive Maximum is not delivered");
        assert!(n >= 3 && is_send(&sm(&ev, n - 3)) && sm(&ev, n - 3).pkt.ptype == 14 && sm(&ev, n - 3).pkt.rc == 0x93, "[C12] answered with DISCONNECT Receive Maximum exceeded");
        assert!(is_close(&sm(&ev, n - 2)) && is_err(&sm(&ev, n - 1), MqttError::ReceiveMaximumExceeded), "[C19] then close, then the error");
        assert!(!c.publish_recv.contains(&r) && !c.qos2_publish_handled.contains(&r), "[C12] the excess message leaves no trace");
    } else {
        assert!(count(&ev, is_recv) == 1 && count(&ev, is_any_err) == 0 && c.publish_recv.contains(&r), "[C12] within the limit: delivered and counted");
    }
    core::mem::forget(ev);
    core::mem::forget(c);
}



// =================================================================== C17: CONNACK on an established connection
fn connack_while_connected(v5: bool) {
    let mut c = fam_client_connected(v311_or_v5(v5));
    c.need_store = true;
    let i: u16 = kani::any();
    use_ids(&mut c, &[i]);
    c.pid_puback.insert(i);
    if v5 {
        c.store.add(mk_pub5(1, i, true).try_into().unwrap()).unwrap();
    } else {
        c.store.add(mk_pub311(1, i, true).try_into().unwrap()).unwrap();
    }
    let sp: bool = kani::any();
    let pre = tm_of(&c);
    let ev = if v5 {
        c.process_recv_v5_0_connack(pbh::verif_raw(0x20, &[sp as u8, 0, 0]))
    } else {
        c.process_recv_v3_1_1_connack(pbh::verif_raw(0x20, &[sp as u8, 0]))
    };
    monitor(pre, &ev, &c);
    assert!(count(&ev, is_recv) == 0 && count(&ev, |e| is_err(e, MqttError::ProtocolError)) == 1, "[C17] a CONNACK on an established connection is a protocol error and is not delivered");
    assert!(sth::len(&c.store) == 1 && c.pid_man.is_used_id(i) && c.pid_puback.contains(&i), "[C17] it leaves the session state untouched");
    assert!(count(&ev, is_close) == 1, "[C19] protocol error requests a close");
    core::mem::forget(ev);
    core::mem::forget(c);
}
#[kani::proof]
#[kani::unwind(2)]
#[kani::stub(core::str::from_utf8, utf8_model)]
fn st_recv_connack_while_connected_v311() {
    connack_while_connected(false)
}
#[kani::proof]
#[kani::unwind(2)]
#[kani::stub(core::str::from_utf8, utf8_model)]
fn st_recv_connack_while_connected_v5() {
    connack_while_connected(true)
}

// =================================================================== SUBACK / UNSUBACK: release announced exactly when an in-use id becomes free
fn suback_like(kind: u8) {
    // kind 0: v3.1.1 SUBACK, 1: v3.1.1 UNSUBACK, 2: v5.0 SUBACK, 3: v5.0 UNSUBACK
    let v5 = kind >= 2;
    let mut c = fam_client_connected(v311_or_v5(v5));
    let u: u16 = kani::any();
    let w: u16 = kani::any();
    kani::assume(u != 0 && w != 0 && u != w);
    // the application may have released the id by hand before the acknowledgement arrives
    let still_used: bool = kani::any();
    if still_used {
        use_ids(&mut c, &[u, w]);
    } else {
        kani::assume(u > 1 && u < u16::MAX);
        use_ids(&mut c, &[w]);
    }
    if kind == 0 || kind == 2 {
        c.pid_suback.insert(u);
    } else {
        c.pid_unsuback.insert(u);
    }
    c.pid_puback.insert(w);
    let r: u16 = kani::any();
    let pre = tm_of(&c);
    kani::cover!(r == u && !still_used, "acknowledgement for an id the application already released");
    let ev = match kind {
        0 => c.process_recv_v3_1_1_suback(pbh::verif_raw(0x90, &[(r >> 8) as u8, r as u8, 0])),
        1 => c.process_recv_v3_1_1_unsuback(pbh::verif_raw(0xB0, &[(r >> 8) as u8, r as u8])),
        2 => c.process_recv_v5_0_suback(pbh::verif_raw(0x90, &[(r >> 8) as u8, r as u8, 0, 0])),
        _ => c.process_recv_v5_0_unsuback(pbh::verif_raw(0xB0, &[(r >> 8) as u8, r as u8, 0, 0])),
    };
    monitor(pre, &ev, &c);
    if r == u {
        assert!(count(&ev, is_recv) == 1 && count(&ev, is_any_err) == 0, "[C05] matching acknowledgement delivered");
        assert!(count(&ev, is_any_released) == still_used as usize, "[C08] a release is announced exactly when an in-use identifier becomes free (never for a free one)");
        assert!(!c.pid_man.is_used_id(u) && !c.pid_suback.contains(&u) && !c.pid_unsuback.contains(&u), "[C08] exchange completed");
    } else {
        assert!(count(&ev, is_recv) == 0 && count(&ev, is_any_err) == 1 && count(&ev, is_any_released) == 0, "[C08] an acknowledgement matching nothing releases nothing and is an error");
        assert!(c.pid_man.is_used_id(u) == still_used, "[C08] nothing changed");
    }
    assert!(c.pid_man.is_used_id(w) && c.pid_puback.contains(&w), "[C08] other exchanges untouched");
    core::mem::forget(ev);
    core::mem::forget(c);
}
#[kani::proof]
#[kani::unwind(2)]
#[kani::stub(core::str::from_utf8, utf8_model)]
fn st_recv_suback_v311() {
    suback_like(0)
}
#[kani::proof]
#[kani::unwind(2)]
#[kani::stub(core::str::from_utf8, utf8_model)]
fn st_recv_unsuback_v311() {
    suback_like(1)
}
#[kani::proof]
#[kani::unwind(2)]
#[kani::stub(core::str::from_utf8, utf8_model)]
fn st_recv_suback_v5() {
    suback_like(2)
}
#[kani::proof]
#[kani::unwind(2)]
#[kani::stub(core::str::from_utf8, utf8_model)]
fn st_recv_unsuback_v5() {
    suback_like(3)
}


// =================================================================== lighter variants (the 3-packet / 2-binding forms exceed 12-23 GB)
// restore_packets with two packets of different kinds: order, wait sets, ids
fn restore_pair(v5: bool, first_q2: bool) {
    let mut c = CC::new(v311_or_v5(v5));
    let i: u16 = kani::any();
    let k: u16 = kani::any();
    kani::assume(i != 0 && k != 0 && i != k);
    let mut v: Vec<GenericStorePacket<u16>> = Vec::new();
    let q = if first_q2 { 2 } else { 1 };
    if v5 {
        v.push(mk_pub5(q, i, true).try_into().unwrap());
        v.push(v5_0::GenericPubrel::<u16>::builder().packet_id(k).build().unwrap().try_into().unwrap());
    } else {
        v.push(mk_pub311(q, i, true).try_into().unwrap());
        v.push(mk_pubrel311(k).try_into().unwrap());
    }
    c.restore_packets(v);
    assert!(sth::len(&c.store) == 2 && sth::id_at(&c.store, 0) == Some(i) && sth::id_at(&c.store, 1) == Some(k), "[C16] restored packets keep their order");
    assert!(c.pid_man.is_used_id(i) && c.pid_man.is_used_id(k), "[C16] restored identifiers are in use");
    if first_q2 {
        assert!(c.pid_pubrec.contains(&i) && c.pid_puback.len() == 0, "[C16] a restored QoS2 PUBLISH waits for PUBREC");
    } else {
        assert!(c.pid_puback.contains(&i) && c.pid_pubrec.len() == 0, "[C16] a restored QoS1 PUBLISH waits for PUBACK");
    }
    assert!(c.pid_pubcomp.contains(&k) && c.pid_pubcomp.len() == 1, "[C16] a restored PUBREL waits for PUBCOMP");
    assert!(c.register_packet_id(i).is_err() && c.register_packet_id(k).is_err(), "[C16] restored identifiers cannot be registered again");
    core::mem::forget(c);
}
#[kani::proof]
#[kani::unwind(2)]
#[kani::stub(core::str::from_utf8, utf8_model)]
fn st_restore_pair_v311_q1() {
    restore_pair(false, false)
}
#[kani::proof]
#[kani::unwind(2)]
#[kani::stub(core::str::from_utf8, utf8_model)]
fn st_restore_pair_v311_q2() {
    restore_pair(false, true)
}
#[kani::proof]
#[kani::unwind(2)]
#[kani::stub(core::str::from_utf8, utf8_model)]
fn st_restore_pair_v5_q1() {
    restore_pair(true, false)
}
#[kani::proof]
#[kani::unwind(2)]
#[kani::stub(core::str::from_utf8, utf8_model)]
fn st_restore_pair_v5_q2() {
    restore_pair(true, true)
}

// restore_packets with ONE packet (the two-packet forms above exceed 28 GB): kind 0 = PUBLISH QoS1, 1 = PUBLISH QoS2, 2 = PUBREL
fn restore_one(v5: bool, kind: u8) {
    let mut c = CC::new(v311_or_v5(v5));
    let i: u16 = kani::any();
    kani::assume(i != 0);
    let mut v: Vec<GenericStorePacket<u16>> = Vec::new();
    if kind == 2 {
        if v5 {
            v.push(v5_0::GenericPubrel::<u16>::builder().packet_id(i).build().unwrap().try_into().unwrap());
        } else {
            v.push(mk_pubrel311(i).try_into().unwrap());
        }
    } else if v5 {
        v.push(mk_pub5(kind + 1, i, true).try_into().unwrap());
    } else {
        v.push(mk_pub311(kind + 1, i, true).try_into().unwrap());
    }
    c.restore_packets(v);
    assert!(sth::len(&c.store) == 1 && sth::id_at(&c.store, 0) == Some(i), "[C16] the restored packet is in the store");
    assert!(c.pid_man.is_used_id(i), "[C16] the restored identifier is in use");
    assert!(c.pid_puback.contains(&i) == (kind == 0) && c.pid_puback.len() == (kind == 0) as usize, "[C16] exactly a restored QoS1 PUBLISH waits for PUBACK");
    assert!(c.pid_pubrec.contains(&i) == (kind == 1) && c.pid_pubrec.len() == (kind == 1) as usize, "[C16] exactly a restored QoS2 PUBLISH waits for PUBREC");
    assert!(c.pid_pubcomp.contains(&i) == (kind == 2) && c.pid_pubcomp.len() == (kind == 2) as usize, "[C16] exactly a restored PUBREL waits for PUBCOMP");
    assert!(c.register_packet_id(i).is_err(), "[C16] a restored identifier cannot be registered again");
    core::mem::forget(c);
}
#[kani::proof]
#[kani::unwind(2)]
#[kani::stub(core::str::from_utf8, utf8_model)]
fn st_restore_one_v311_publish_q1() {
    restore_one(false, 0)
}
#[kani::proof]
#[kani::unwind(2)]
#[kani::stub(core::str::from_utf8, utf8_model)]
fn st_restore_one_v311_publish_q2() {
    restore_one(false, 1)
}
#[kani::proof]
#[kani::unwind(2)]
fn st_restore_one_v311_pubrel() {
    restore_one(false, 2)
}
#[kani::proof]
#[kani::unwind(2)]
fn st_restore_one_v5_pubrel() {
    restore_one(true, 2)
}
#[kani::proof]
#[kani::unwind(2)]
#[kani::stub(core::str::from_utf8, utf8_model)]
fn st_restore_one_v5_publish_q2() {
    restore_one(true, 1)
}

// manual alias re-binding with ONE earlier binding (the two-binding form exceeds 23 GB)
#[kani::proof]
#[kani::unwind(2)]
#[kani::stub(core::str::from_utf8, utf8_model)]
fn st_send_publish_v5_manual_alias_rebind1() {
    set_detail(true);
    let mut c = fam_client_connected(Version::V5_0);
    let mut tas = TopicAliasSend::new(3);
    let mut r: [u8; 4] = [0; 4];
    let k1: u8 = kani::any();
    let a1: u16 = kani::any();
    kani::assume(k1 <= 1 && a1 >= 1 && a1 <= 3);
    tas.insert_or_update(topic_of(k1), a1);
    r[a1 as usize] = byte_of(k1);
    c.topic_alias_send = Some(tas);
    let kx: u8 = kani::any();
    let ax: u16 = kani::any();
    kani::assume(kx <= 1 && ax >= 1 && ax <= 3);
    kani::cover!(kx == k1 && ax != a1, "the same topic gets a second alias");
    kani::cover!(kx != k1 && ax == a1, "the alias is re-bound to another topic");
    let p = mk_pub5_alias(byte_of(kx), ax).unwrap();
    let pre = tm_of(&c);
    let ev = c.process_send_v5_0_publish(p);
    monitor(pre, &ev, &c);
    let e = sm(&ev, 0);
    assert!(is_send(&e) && e.pkt.alias == ax && !e.pkt.topic_empty && e.pkt.topic0 == byte_of(kx), "[C13] the PUBLISH goes out with its topic and the alias");
    r[ax as usize] = byte_of(kx);
    let t = c.topic_alias_send.as_ref().unwrap();
    let mut q: u16 = 1;
    while q <= 3 {
        let got = t.peek(q).map(|s| s.as_bytes()[0]).unwrap_or(0);
        assert!(got == r[q as usize], "[C13] sender-side alias table equals the bindings the receiver holds");
        q += 1;
    }
    core::mem::forget(ev);
    core::mem::forget(c);
}

// =================================================================== fast variants for the quick tier (one path each)
fn recv_publish_q2_v311_case(duplicate: bool) {
    let mut c = fam_client_connected(Version::V3_1_1);
    c.auto_pub_response = false;
    let h: u16 = kani::any();
    kani::assume(h != 0);
    c.qos2_publish_handled.insert(h);
    let r: u16 = if duplicate { h } else { kani::any() };
    kani::assume(r != 0 && (duplicate || r != h));
    let dup: bool = kani::any();
    let pre = tm_of(&c);
    let body: [u8; 6] = [0, 1, b't', (r >> 8) as u8, r as u8, kani::any()];
    let raw = pbh::verif_raw(0x34 | ((dup as u8) << 3), &body);
    let ev = c.process_recv_v3_1_1_publish(raw);
    monitor(pre, &ev, &c);
    if duplicate {
        assert!(count(&ev, is_recv) == 0, "[C07] a retransmission of an already notified QoS2 PUBLISH is not notified again");
        assert!(count(&ev, is_send) == 1, "[C07] it is answered with PUBREC");
    } else {
        assert!(count(&ev, is_recv) == 1, "[C07] a QoS2 PUBLISH with a new identifier is notified once");
        assert!(count(&ev, is_send) == 0, "[C07] no automatic PUBREC when automatic responses are off");
    }
    assert!(c.qos2_publish_handled.contains(&r) && c.qos2_publish_handled.contains(&h), "[C07] id recorded as handled until PUBREL");
    assert!(count(&ev, is_any_err) == 0, "[C05] valid PUBLISH raises no error");
    core::mem::forget(ev);
    core::mem::forget(c);
}
#[kani::proof]
#[kani::unwind(2)]
#[kani::stub(core::str::from_utf8, utf8_model)]
fn st_recv_publish_q2_v311_new() {
    recv_publish_q2_v311_case(false)
}
#[kani::proof]
#[kani::unwind(2)]
#[kani::stub(core::str::from_utf8, utf8_model)]
fn st_recv_publish_q2_v311_dup() {
    recv_publish_q2_v311_case(true)
}

// vacancy arithmetic for all values
#[kani::proof]
#[kani::unwind(2)]
fn c12_vacancy_kernel() {
    let mut c = CC::new(Version::V5_0);
    let m: Option<u16> = kani::any();
    let cnt: u16 = kani::any();
    c.publish_send_max = m;
    c.publish_send_count = cnt;
    let v = c.get_receive_maximum_vacancy_for_send();
    match m {
        None => assert!(v.is_none(), "[C12] no vacancy is reported without a peer Receive Maximum"),
        Some(mx) => {
            assert!(v == Some(if cnt >= mx { 0 } else { mx - cnt }), "[C12] vacancy equals M minus the incomplete exchanges, saturating at zero (never wraps)");
        }
    }
    core::mem::forget(c);
}
