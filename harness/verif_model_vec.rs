// ------------------------------------------------------------------------------------------------
// Stand-in for alloc::vec::Vec in the connection module (core.rs, sendable*.rs, store.rs).
//
// Event lists are write-only inside the library (push / extend / vec![..] / return). The real Vec
// keeps 600-byte tagged unions in a heap buffer that is re-allocated and byte-copied on growth;
// under CBMC every conditional push becomes a symbolic-index store into that buffer and reading a
// single event back costs > 14 GB (measured; inline-array and boxed-slot models were worse).
// This model therefore keeps, for GenericEvent elements, only a Copy summary computed from the
// real element at push time through its real accessors (verif_harness::evsum), and forgets the
// element. All other element types (GenericStorePacket, packet ids) are kept boxed.
// Capacity ECAP; overflow is a reported failure.
pub const ECAP: usize = 8;

use crate::verif_harness::evsum::{summarize_event, EvSum};
use core::any::TypeId;

/// true exactly when T is an event type (then the list is summary-only); a compile-time constant per instantiation
fn is_event_type<T: 'static>() -> bool {
    use crate::mqtt::connection::event::GenericEvent;
    TypeId::of::<T>() == TypeId::of::<GenericEvent<u16>>() || TypeId::of::<T>() == TypeId::of::<GenericEvent<u32>>()
}
fn summarize_any<T: 'static>(x: &T) -> EvSum {
    use crate::mqtt::connection::event::GenericEvent;
    if TypeId::of::<T>() == TypeId::of::<GenericEvent<u16>>() {
        let e: &GenericEvent<u16> = unsafe { &*(x as *const T as *const GenericEvent<u16>) };
        summarize_event(e)
    } else if TypeId::of::<T>() == TypeId::of::<GenericEvent<u32>>() {
        let e: &GenericEvent<u32> = unsafe { &*(x as *const T as *const GenericEvent<u32>) };
        summarize_event(e)
    } else {
        EvSum::NONE
    }
}

pub struct Vec<T> {
    items: [Option<Box<T>>; ECAP],
    sums: [EvSum; ECAP],
    len: usize,
}
impl<T: 'static> Vec<T> {
    pub fn new() -> Self {
        Self { items: [None, None, None, None, None, None, None, None], sums: [EvSum::NONE; ECAP], len: 0 }
    }
    pub fn len(&self) -> usize {
        self.len
    }
    pub fn is_empty(&self) -> bool {
        self.len == 0
    }
    pub fn push(&mut self, x: T) {
        assert!(self.len < ECAP, "verif container model capacity exceeded");
        if is_event_type::<T>() {
            self.sums[self.len] = summarize_any(&x);
            core::mem::forget(x);
        } else {
            // slots at positions >= len are always None: write without running drop glue on the old value
            unsafe { core::ptr::write(&mut self.items[self.len], Some(Box::new(x))) };
        }
        self.len += 1;
    }
    /// `events.extend(other_list)`: every caller in the connection module passes a whole list
    pub fn extend(&mut self, other: Vec<T>) {
        let mut i = 0;
        while i < other.len {
            assert!(self.len < ECAP, "verif container model capacity exceeded");
            if is_event_type::<T>() {
                self.sums[self.len] = other.sums[i];
            } else {
                let b = unsafe { core::ptr::read(&other.items[i]) };
                unsafe { core::ptr::write(&mut self.items[self.len], b) };
            }
            self.len += 1;
            i += 1;
        }
        core::mem::forget(other);
    }
    /// summary of the i-th element (the only way to look at an event list)
    pub fn sum(&self, i: usize) -> EvSum {
        assert!(i < self.len, "index out of bounds");
        self.sums[i]
    }
    pub fn from_array<const N: usize>(a: [T; N]) -> Self {
        let mut v = Self::new();
        for x in a {
            v.push(x);
        }
        v
    }
}
impl<T: 'static> Default for Vec<T> {
    fn default() -> Self {
        Self::new()
    }
}
pub struct VecIntoIter<T> {
    v: Vec<T>,
    pos: usize,
}
impl<T: 'static> Iterator for VecIntoIter<T> {
    type Item = T;
    fn next(&mut self) -> Option<T> {
        if self.pos < self.v.len {
            let r = self.v.items[self.pos].take().map(|b| *b);
            assert!(r.is_some(), "by-value iteration over a summary-only list");
            self.pos += 1;
            r
        } else {
            None
        }
    }
}
impl<T: 'static> IntoIterator for Vec<T> {
    type Item = T;
    type IntoIter = VecIntoIter<T>;
    fn into_iter(self) -> VecIntoIter<T> {
        VecIntoIter { v: self, pos: 0 }
    }
}
impl<T: 'static> core::iter::FromIterator<T> for Vec<T> {
    fn from_iter<I: IntoIterator<Item = T>>(it: I) -> Self {
        let mut v = Self::new();
        for x in it {
            v.push(x);
        }
        v
    }
}
