// harness-file: codec
// harness: c02_v311_unsuback
// solver-failed-checks: ["\"[C02,C03] size() equals the length of the specified encoding\""]
// native outcomes: {"dev": "fails: [C02,C03] size() equals the length of the specified encoding", "release": "fails: [C02,C03] size() equals the length of the specified encoding"}
/// Test generated for harness `verif_harness::codec::c02_v311_unsuback` 
///
/// Check for `assertion`: ""[C02,C03] size() equals the length of the specified encoding""

#[test]
fn kani_concrete_playback_c02_v311_unsuback_16248202445291459488() {
    let concrete_vals: Vec<Vec<u8>> = vec![
        // 32896
        vec![128, 128],
        // 2155905152
        vec![128, 128, 128, 128],
    ];
    kani::concrete_playback_run(concrete_vals, c02_v311_unsuback);
}

