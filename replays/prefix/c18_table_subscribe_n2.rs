// harness-file: v5_subscribe
// harness: c18_table_subscribe_n2
// solver-failed-checks: ["\"[C18] subscribe accepts exactly the properties (and repetitions) the specification table allows\""]
// native outcomes: {"dev": "fails: [C18] subscribe accepts exactly the properties (and repetitions) the specification table allows", "release": "fails: [C18] subscribe accepts exactly the properties (and repetitions) the specification table allows"}
/// Test generated for harness `mqtt::packet::v5_0::subscribe::verif_harness::c18_table_subscribe_n2` 
///
/// Check for `assertion`: ""[C18] subscribe accepts exactly the properties (and repetitions) the specification table allows""
///
/// # Warning
///
/// Concrete playback tests combined with stubs or contracts is highly
/// experimental, and subject to change.
///
/// The original harness has stubs which are not applied to this test.
/// This may cause a mismatch of non-deterministic values if the stub
/// creates any non-deterministic value.
/// The execution path may also differ, which can be used to refine the stub
/// logic.

#[test]
fn kani_concrete_playback_c18_table_subscribe_n2_4964115243782516938() {
    let concrete_vals: Vec<Vec<u8>> = vec![
        // 11
        vec![11],
        // 4026531841
        vec![1, 0, 0, 240],
        // 11
        vec![11],
        // 2097154
        vec![2, 0, 32, 0],
    ];
    kani::concrete_playback_run(concrete_vals, c18_table_subscribe_n2);
}

/// Test generated for harness `mqtt::packet::v5_0::subscribe::verif_harness::c18_table_subscribe_n2` 
///
/// Check for `cover`: "a rejected combination exists"
///
/// # Warning
///
/// Concrete playback tests combined with stubs or contracts is highly
/// experimental, and subject to change.
///
/// The original harness has stubs which are not applied to this test.
/// This may cause a mismatch of non-deterministic values if the stub
/// creates any non-deterministic value.
/// The execution path may also differ, which can be used to refine the stub
/// logic.

#[test]
fn kani_concrete_playback_c18_table_subscribe_n2_15902727538256158302() {
    let concrete_vals: Vec<Vec<u8>> = vec![
        // 1
        vec![1],
        // 1
        vec![1, 0, 0, 0],
        // 1
        vec![1],
        // 1
        vec![1, 0, 0, 0],
    ];
    kani::concrete_playback_run(concrete_vals, c18_table_subscribe_n2);
}

