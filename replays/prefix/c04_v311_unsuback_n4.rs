// harness-file: codec
// harness: c04_v311_unsuback_n4
// solver-failed-checks: ["\"[C04] accepted packet has a non-zero identifier\""]
// native outcomes: {"dev": "fails: [C04] accepted packet has a non-zero identifier", "release": "fails: [C04] accepted packet has a non-zero identifier"}
/// Test generated for harness `verif_harness::codec::c04_v311_unsuback_n4` 
///
/// Check for `assertion`: ""[C04] accepted packet has a non-zero identifier""

#[test]
fn kani_concrete_playback_c04_v311_unsuback_n4_7038364992687115319() {
    let concrete_vals: Vec<Vec<u8>> = vec![
        // 0
        vec![0],
        // 0
        vec![0],
        // 255
        vec![255],
        // 255
        vec![255],
        // 2ul
        vec![2, 0, 0, 0, 0, 0, 0, 0],
    ];
    kani::concrete_playback_run(concrete_vals, c04_v311_unsuback_n4);
}

